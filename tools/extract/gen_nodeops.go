package main

// NodeOps.lean: the child-table methods of node.go — (*nodeRef).findChild and, for each of node4 / node16 / node48 /
// node256, addChild, deleteChild and clear — translated statement by statement into Lean functions in the Option
// monad over the run-time model `Model/GoNode.lean` (`none` = the Go code would panic or a loop ran out of fuel).
//
// Value sorts: uint8/byte = UInt8, uint32 = UInt32, int = Int (node.go performs no int arithmetic that could
// overflow 64 bits: positions below 257 plus one), bool = Bool, [N]byte / []byte = Bytes, [N]nodeRef =
// List (Option C), a nodeRef value = Option C (none = nil pointer), *node4 … *node256 = a mutable local of sort
// `Img C`, `x.node()` of a reference = a mutable local of sort `HdrV` that is written back into the reference where
// the reference is used as a value (`*ref = child`).
//
// Statements: `x := e`, `x = e`, `var x T`, `x++ / x-- / x += e` on locals, fields, array elements;
// `a[i] = e`, `a[i].pointer = nil`; `if [init;] c { } [else { }]`; three-clause `for` loops and `for cond { }`
// without break/continue/return (each becomes a function `<f>.loopK` by recursion on fuel, its state the variables
// assigned in the body); `switch ref.tag { case nodeKindN: … default: panic }`; `copy`, `clear`, `min`;
// calls of the node4.go helpers (through `Gen/Node4.lean`), of searchNode16 / insertPosNode16 (the lane-level
// model `Raw.searchNode16 / insertPosNode16`, which `Proofs/Asm16` proves the assembly to compute), of the sibling
// methods translated here; `nodePools[k].Get().(*T)` = `E.pool k`, `nodePools[k].Put(x)` appends `(k, x)` to the
// result's `released` list; `*ref = nodeRef{pointer: unsafe.Pointer(x), tag: k}` makes `*ref` an alias of the local
// `x` (the value reported is x's value when the function returns), `*ref = v` a plain reference value.
// Anything else is a hard error naming file:line.

import (
	"fmt"
	"go/ast"
	"go/token"
	"go/types"
	"sort"
	"strings"
)

type nvar struct {
	lean string
	sort string // u8 u32 int bool ref img hdrv bytes refs
	view *nvar  // for hdrv: the reference variable it was obtained from
	obj  types.Object
}

type nctx struct {
	w      *world
	fname  string
	env    map[types.Object]*nvar
	order  []*nvar
	used   map[string]int
	viewOf map[*nvar]*nvar // reference variable → the header view taken of it with .node()
	loops  []string
	nloops int

	withRef bool         // the Go method has a *nodeRef out-parameter (or receiver)
	refObj  types.Object // that parameter
	recv    *nvar        // receiver image (class methods)
	recvTag string
	// what *ref designates: "" = still the receiver, "alias" (refVar), "dyn" (refExpr), "child" (refExpr)
	refKind string
	refVar  *nvar
	refTag  string
	refExpr string
	dispatch bool // receiver is *nodeRef: parameters tag / nd
	retSlot bool  // findChild: returns *nodeRef
	// minimum()/maximum() of tree.go: one step of the walk – `ref` is a nodeRef VALUE, `kind := ref.tag` its tag,
	// and `ref = e` ends the step with the reference the walk continues with
	stepRef  types.Object
	stepKind types.Object
	lcpMode  bool         // lowestCommonParent step: returns are outcomes, prefixMismatch is a parameter
	lcpN     types.Object // the current reference `n`
	loopCont func() string // inside a loop body: what `continue` means (post statement + next iteration)
	pushQ    *nvar         // the traversal stack of all()/backward(): the function's result
}

func (c *nctx) fail(pos token.Pos, format string, args ...any) {
	c.w.failAt(pos, "node.go translator ("+c.fname+"): "+format, args...)
}

var leanReserved = map[string]bool{"prefix": true, "end": true, "at": true, "from": true, "open": true, "in": true, "then": true, "do": true, "fun": true, "let": true, "have": true, "show": true, "match": true, "with": true, "if": true, "else": true, "variable": true, "section": true, "namespace": true, "instance": true, "structure": true, "class": true, "def": true, "theorem": true, "infix": true, "postfix": true, "notation": true, "local": true, "where": true, "deriving": true, "mutual": true, "example": true, "axiom": true, "by": true, "Type": true, "Prop": true, "Sort": true}

func leanIdent(s string) string {
	if leanReserved[s] {
		return "«" + s + "»"
	}
	return s
}

func (c *nctx) declare(obj types.Object, sort string) *nvar {
	name := obj.Name()
	n := c.used[name]
	c.used[name] = n + 1
	lean := leanIdent(name)
	if n > 0 {
		lean = fmt.Sprintf("%s_%d", name, n)
	}
	v := &nvar{lean: lean, sort: sort, obj: obj}
	c.env[obj] = v
	c.order = append(c.order, v)
	return v
}

func (c *nctx) leanType(sort string) string {
	switch sort {
	case "u8":
		return "UInt8"
	case "u32":
		return "UInt32"
	case "int":
		return "Int"
	case "bool":
		return "Bool"
	case "ref":
		return "Option C"
	case "img":
		return "Img C"
	case "hdrv":
		return "HdrV"
	case "bytes":
		return "Bytes"
	case "refs":
		return "List (Option C)"
	case "ents":
		return "List (Option C × Int)"
	case "ent":
		return "Option C × Int"
	}
	panic("sort " + sort)
}

func (c *nctx) nodeClass(t types.Type) string {
	if p, ok := t.(*types.Pointer); ok {
		t = p.Elem()
	}
	if n, ok := t.(*types.Named); ok {
		switch n.Obj().Name() {
		case "node4", "node16", "node48", "node256":
			return n.Obj().Name()
		}
	}
	return ""
}

func (c *nctx) sortOf(t types.Type, pos token.Pos) string {
	if c.nodeClass(t) != "" {
		if _, ok := t.(*types.Pointer); ok {
			return "img"
		}
	}
	if p, ok := t.(*types.Pointer); ok {
		if c.w.isNamed(p.Elem(), "node") {
			return "hdrv"
		}
	}
	if c.w.isNamed(t, "nodeRef") {
		return "ref"
	}
	if c.w.isNamed(t, "rangeEntry") {
		return "ent"
	}
	if sl, ok := t.Underlying().(*types.Slice); ok && c.w.isNamed(sl.Elem(), "rangeEntry") {
		return "ents"
	}
	switch u := t.Underlying().(type) {
	case *types.Basic:
		switch u.Kind() {
		case types.Uint8:
			return "u8"
		case types.Uint32:
			return "u32"
		case types.Int, types.UntypedInt:
			return "int"
		case types.Bool, types.UntypedBool:
			return "bool"
		}
	case *types.Array:
		if b, ok := u.Elem().Underlying().(*types.Basic); ok && b.Kind() == types.Uint8 {
			return "bytes"
		}
		if c.w.isNamed(u.Elem(), "nodeRef") {
			return "refs"
		}
	case *types.Slice:
		if b, ok := u.Elem().Underlying().(*types.Basic); ok && b.Kind() == types.Uint8 {
			return "bytes"
		}
		if c.w.isNamed(u.Elem(), "nodeRef") {
			return "refs"
		}
	}
	c.fail(pos, "unsupported type %s", t)
	return ""
}

// tagValue: the numeric value of a nodeKind constant expression.
func (c *nctx) tagValue(e ast.Expr) string {
	tv, ok := c.w.info.Types[e]
	if !ok || tv.Value == nil || !c.w.isNamed(tv.Type, "nodeKind") {
		c.fail(e.Pos(), "expected a nodeKind constant, found %s", types.ExprString(e))
	}
	return tv.Value.ExactString()
}

// ---------------------------------------------------------------------------------------------------------------
// expressions
// ---------------------------------------------------------------------------------------------------------------

func (c *nctx) constLit(e ast.Expr, sort string) (string, bool) {
	tv, ok := c.w.info.Types[e]
	if !ok || tv.Value == nil {
		return "", false
	}
	s := tv.Value.ExactString()
	switch sort {
	case "u8", "u32", "int":
		return "(" + s + " : " + c.leanType(sort) + ")", true
	case "bool":
		return s, true
	}
	return "", false
}

// toInt renders an integer-valued expression at sort Int (for indices and slice bounds).
func (c *nctx) toInt(e ast.Expr) string {
	s, sort := c.expr(e)
	switch sort {
	case "int":
		return s
	case "u8", "u32":
		return "(" + s + ".toNat : Int)"
	}
	c.fail(e.Pos(), "expected an integer, found %s", sort)
	return ""
}

func (c *nctx) fieldOf(x ast.Expr, name string, t types.Type, pos token.Pos) (string, string) {
	base, bsort := c.expr(x)
	switch bsort {
	case "img":
		switch name {
		case "prefixLen":
			return base + ".prefixLen", "u32"
		case "childrenLen":
			return base + ".childrenLen", "u8"
		case "prefix":
			return base + ".«prefix»", "bytes"
		case "children":
			return base + ".children", "refs"
		case "keys":
			if b, ok := t.Underlying().(*types.Basic); ok && b.Kind() == types.Uint32 {
				return base + ".keysW", "word"
			}
			return base + ".keysA", "bytes"
		}
	case "hdrv":
		switch name {
		case "prefixLen":
			return base + ".prefixLen", "u32"
		case "childrenLen":
			return base + ".childrenLen", "u8"
		case "prefix":
			return base + ".«prefix»", "bytes"
		}
	}
	c.fail(pos, "unsupported field %s of a %s", name, bsort)
	return "", ""
}

func (c *nctx) expr(e ast.Expr) (string, string) {
	e = unparen(e)
	if tv, ok := c.w.info.Types[e]; ok && tv.Value != nil {
		sort := c.sortOf(tv.Type, e.Pos())
		if s, ok := c.constLit(e, sort); ok {
			return s, sort
		}
	}
	switch e := e.(type) {
	case *ast.Ident:
		if e.Name == "nil" {
			return "none", "ref"
		}
		obj := c.w.info.Uses[e]
		if v, ok := c.env[obj]; ok {
			if hv := c.viewOf[v]; v.sort == "ref" && hv != nil {
				// the reference as a value: with the header that was written through `x.node()`
				return "(" + v.lean + ".map fun cc => E.setHdr cc " + hv.lean + ")", "ref"
			}
			return v.lean, v.sort
		}
		c.fail(e.Pos(), "unsupported reference to %s", e.Name)
	case *ast.SelectorExpr:
		return c.fieldOf(e.X, e.Sel.Name, c.w.info.TypeOf(e), e.Pos())
	case *ast.IndexExpr:
		a, asort := c.expr(e.X)
		i := c.toInt(e.Index)
		switch asort {
		case "bytes":
			return "(← idx? " + a + " " + i + ")", "u8"
		case "refs":
			return "(← idx? " + a + " " + i + ")", "ref"
		}
		c.fail(e.Pos(), "unsupported index into a %s", asort)
	case *ast.BinaryExpr:
		switch e.Op {
		case token.LAND, token.LOR:
			x, xs := c.expr(e.X)
			y, ys := c.expr(e.Y)
			if xs != "bool" || ys != "bool" {
				c.fail(e.Pos(), "non-boolean operand of %s", e.Op)
			}
			if strings.Contains(y, "←") {
				c.fail(e.Pos(), "a right operand of %s that can panic is outside the fragment", e.Op)
			}
			op := "&&"
			if e.Op == token.LOR {
				op = "||"
			}
			return "(" + x + " " + op + " " + y + ")", "bool"
		case token.EQL, token.NEQ, token.LSS, token.LEQ, token.GTR, token.GEQ:
			// pointer comparison with nil
			if id, ok := unparen(e.Y).(*ast.Ident); ok && id.Name == "nil" {
				if sel, ok := unparen(e.X).(*ast.SelectorExpr); ok && sel.Sel.Name == "pointer" {
					r, rs := c.expr(sel.X)
					if rs != "ref" {
						c.fail(e.Pos(), "unsupported .pointer of a %s", rs)
					}
					if e.Op == token.NEQ {
						return "(" + r + ").isSome", "bool"
					}
					if e.Op == token.EQL {
						return "(" + r + ").isNone", "bool"
					}
				}
				c.fail(e.Pos(), "unsupported comparison with nil")
			}
			// tag comparison: child.tag != nodeKindLeaf
			if sel, ok := unparen(e.X).(*ast.SelectorExpr); ok && sel.Sel.Name == "tag" {
				r, rs := c.expr(sel.X)
				leaf, isConst := c.w.info.Types[e.Y]
				if rs == "ref" && isConst && leaf.Value != nil {
					if obj := c.w.pkg.Scope().Lookup("nodeKindLeaf"); obj != nil {
						if k, ok := obj.(*types.Const); ok && k.Val().ExactString() == leaf.Value.ExactString() {
							isLeaf := "(E.isLeaf (← " + r + "))"
							if e.Op == token.NEQ {
								return "(!" + isLeaf + ")", "bool"
							}
							if e.Op == token.EQL {
								return isLeaf, "bool"
							}
						}
					}
				}
				c.fail(e.Pos(), "unsupported tag comparison")
			}
			x, xs := c.expr(e.X)
			y, ys := c.expr(e.Y)
			if xs != ys || (xs != "u8" && xs != "u32" && xs != "int") {
				c.fail(e.Pos(), "unsupported comparison of %s with %s", xs, ys)
			}
			op := map[token.Token]string{token.EQL: "==", token.NEQ: "!=", token.LSS: "<", token.LEQ: "≤", token.GTR: ">", token.GEQ: "≥"}[e.Op]
			if e.Op == token.EQL || e.Op == token.NEQ {
				return "(" + x + " " + op + " " + y + ")", "bool"
			}
			return "(decide (" + x + " " + op + " " + y + "))", "bool"
		case token.ADD, token.SUB:
			x, xs := c.expr(e.X)
			y, ys := c.expr(e.Y)
			if xs != ys || (xs != "u8" && xs != "u32" && xs != "int") {
				c.fail(e.Pos(), "unsupported arithmetic on %s and %s", xs, ys)
			}
			return "(" + x + " " + e.Op.String() + " " + y + ")", xs
		}
		c.fail(e.Pos(), "unsupported operator %s", e.Op)
	case *ast.CompositeLit:
		if c.w.isNamed(c.w.info.TypeOf(e), "rangeEntry") && len(e.Elts) == 2 {
			var r, d string
			for i, el := range e.Elts {
				v := el
				name := []string{"ref", "depth"}[i]
				if kv, ok := el.(*ast.KeyValueExpr); ok {
					name, v = kv.Key.(*ast.Ident).Name, kv.Value
				}
				switch name {
				case "ref":
					r = c.rhs(v, "ref")
				case "depth":
					d = c.rhs(v, "int")
				}
			}
			if r != "" && d != "" {
				return "(" + r + ", " + d + ")", "ent"
			}
		}
		c.fail(e.Pos(), "unsupported composite literal %s", types.ExprString(e))
	case *ast.SliceExpr:
		c.fail(e.Pos(), "a slice expression outside copy/clear is outside the fragment")
	case *ast.CallExpr:
		return c.call(e)
	}
	c.fail(e.Pos(), "unsupported expression %s", types.ExprString(e))
	return "", ""
}

// sliceArg: `a[lo:hi]` or an array/slice value used as an argument of copy → (array code, lo, hi, sort)
func (c *nctx) sliceArg(e ast.Expr) (arr, lo, hi, sort string) {
	e = unparen(e)
	if se, ok := e.(*ast.SliceExpr); ok {
		if se.Slice3 {
			c.fail(e.Pos(), "three-index slice")
		}
		arr, sort = c.expr(se.X)
		lo = "(0 : Int)"
		if se.Low != nil {
			lo = c.toInt(se.Low)
		}
		hi = "(" + arr + ".length : Int)"
		if se.High != nil {
			hi = c.toInt(se.High)
		}
		return
	}
	arr, sort = c.expr(e)
	return arr, "(0 : Int)", "(" + arr + ".length : Int)", sort
}

func (c *nctx) calleeName(e *ast.CallExpr) (string, types.Object) {
	switch f := unparen(e.Fun).(type) {
	case *ast.Ident:
		return f.Name, c.w.info.Uses[f]
	case *ast.SelectorExpr:
		return f.Sel.Name, c.w.info.Uses[f.Sel]
	}
	return "", nil
}

// node4.go helper with value result
func (c *nctx) call(e *ast.CallExpr) (string, string) {
	if tv, ok := c.w.info.Types[e.Fun]; ok && tv.IsType() {
		// conversion
		if len(e.Args) != 1 {
			c.fail(e.Pos(), "unsupported conversion")
		}
		to := c.sortOf(tv.Type, e.Pos())
		x, from := c.expr(e.Args[0])
		switch {
		case to == from:
			return x, to
		case to == "int" && (from == "u8" || from == "u32"):
			return "(" + x + ".toNat : Int)", "int"
		case to == "u8" && from == "int":
			return "(UInt8.ofInt " + x + ")", "u8"
		case to == "u8" && from == "u32":
			return "(" + x + ".toUInt8)", "u8"
		case to == "u32" && from == "u8":
			return "(" + x + ".toUInt32)", "u32"
		case to == "u32" && from == "int":
			return "(UInt32.ofInt " + x + ")", "u32"
		}
		c.fail(e.Pos(), "unsupported conversion from %s to %s", from, to)
	}
	name, obj := c.calleeName(e)
	if c.lcpMode {
		fun := unparen(e.Fun)
		if ix, ok := fun.(*ast.IndexListExpr); ok {
			fun = ix.X
		} else if ix, ok := fun.(*ast.IndexExpr); ok {
			fun = ix.X
		}
		if id, ok := fun.(*ast.Ident); ok && id.Name == "prefixMismatch" && len(e.Args) == 3 {
			// prefixMismatch(n, prefix, depth) with exactly the step's own n, prefix and depth: the parameter `pm`
			if a0, ok := unparen(e.Args[0]).(*ast.Ident); ok && c.w.info.Uses[a0] == c.lcpN {
				_, s1 := c.expr(e.Args[1])
				_, s2 := c.expr(e.Args[2])
				if s1 == "bytes" && s2 == "int" {
					return "pm", "int"
				}
			}
			c.fail(e.Pos(), "prefixMismatch with other arguments than (n, prefix, depth)")
		}
	}
	if _, isBuiltin := obj.(*types.Builtin); isBuiltin {
		switch name {
		case "min":
			if len(e.Args) == 2 {
				x, xs := c.expr(e.Args[0])
				y, ys := c.expr(e.Args[1])
				if xs == ys && (xs == "u8" || xs == "u32" || xs == "int") {
					return "(min " + x + " " + y + ")", xs
				}
			}
		case "len":
			if len(e.Args) == 1 {
				x, xs := c.expr(e.Args[0])
				if xs == "bytes" {
					return "(" + x + ".length : Int)", "int"
				}
			}
		case "append":
			if len(e.Args) == 2 && !e.Ellipsis.IsValid() {
				x, xs := c.expr(e.Args[0])
				y, ys := c.expr(e.Args[1])
				if xs == "refs" && ys == "ref" {
					return "(" + x + " ++ [" + y + "])", "refs"
				}
				if xs == "ents" && ys == "ent" {
					return "(" + x + " ++ [" + y + "])", "ents"
				}
			}
		case "int":
		}
		c.fail(e.Pos(), "unsupported builtin %s", name)
	}
	if fn, ok := obj.(*types.Func); ok && fn.Pkg() == c.w.pkg {
		sig := fn.Type().(*types.Signature)
		if sig.Recv() == nil {
			switch name {
			case "searchNode4", "insertPosNode4":
				if len(e.Args) == 2 {
					k, ks := c.expr(e.Args[0])
					b, bs := c.expr(e.Args[1])
					if ks == "word" && bs == "u8" {
						return "(Gen." + name + " " + k + " " + b + ".toBitVec)", "int"
					}
				}
			case "getAtPos":
				if len(e.Args) == 2 {
					k, ks := c.expr(e.Args[0])
					if ks == "word" {
						return "(u8 (Gen.getAtPos " + k + " (← natOf " + c.toInt(e.Args[1]) + ")))", "u8"
					}
				}
			case "construct":
				if len(e.Args) == 4 {
					var parts []string
					for _, a := range e.Args {
						x, xs := c.expr(a)
						if xs != "u8" {
							c.fail(a.Pos(), "construct of a %s", xs)
						}
						parts = append(parts, x+".toBitVec")
					}
					return "(Gen.construct " + strings.Join(parts, " ") + ")", "word"
				}
			case "deconstruct":
				if len(e.Args) == 1 {
					k, ks := c.expr(e.Args[0])
					if ks == "word" {
						return "((Gen.deconstruct " + k + ").map u8)", "bytes"
					}
				}
			case "searchNode16", "insertPosNode16":
				if len(e.Args) == 3 {
					if u, ok := unparen(e.Args[0]).(*ast.UnaryExpr); ok && u.Op == token.AND {
						k, ks := c.expr(u.X)
						n, ns := c.expr(e.Args[1])
						b, bs := c.expr(e.Args[2])
						if ks == "bytes" && ns == "u8" && bs == "u8" {
							return "(Raw." + name + " " + k + " " + n + ".toNat " + b + ")", "int"
						}
					}
				}
			}
			c.fail(e.Pos(), "unsupported call of %s", name)
		}
	}
	c.fail(e.Pos(), "unsupported call %s", types.ExprString(e))
	return "", ""
}

// ---------------------------------------------------------------------------------------------------------------
// assignments
// ---------------------------------------------------------------------------------------------------------------

// store emits the rebinding that makes the l-value `lhs` hold `val` (a Lean term of the l-value's sort).
func (c *nctx) store(lhs ast.Expr, val func(cur string, sort string) string) string {
	lhs = unparen(lhs)
	switch l := lhs.(type) {
	case *ast.Ident:
		v, ok := c.env[c.w.info.Uses[l]]
		if !ok {
			c.fail(l.Pos(), "assignment to unknown variable %s", l.Name)
		}
		if v.sort == "img" || v.sort == "ref" {
			c.fail(l.Pos(), "assignment to the %s variable %s", v.sort, l.Name)
		}
		if (v.sort == "refs" || v.sort == "ents") && v != c.pushQ {
			c.fail(l.Pos(), "assignment to the slice variable %s", l.Name)
		}
		return fmt.Sprintf("let %s : %s := %s\n", v.lean, c.leanType(v.sort), val(v.lean, v.sort))
	case *ast.SelectorExpr:
		// x.f = e   (x an image or a header view)
		if l.Sel.Name == "pointer" {
			// a[i].pointer = nil
			if ie, ok := unparen(l.X).(*ast.IndexExpr); ok {
				arrSel, ok := unparen(ie.X).(*ast.SelectorExpr)
				if !ok {
					c.fail(l.Pos(), "unsupported .pointer target")
				}
				v := val("", "ref")
				if v != "none" {
					c.fail(l.Pos(), "only `.pointer = nil` is in the fragment")
				}
				return c.storeField(arrSel, func(cur, sort string) string {
					return "(← setIdx " + cur + " " + c.toInt(ie.Index) + " none)"
				})
			}
			c.fail(l.Pos(), "unsupported .pointer target")
		}
		return c.storeField(l, val)
	case *ast.IndexExpr:
		arrSel, ok := unparen(l.X).(*ast.SelectorExpr)
		if !ok {
			c.fail(l.Pos(), "unsupported indexed assignment target")
		}
		_, asort := c.expr(arrSel)
		elem := map[string]string{"bytes": "u8", "refs": "ref"}[asort]
		if elem == "" {
			c.fail(l.Pos(), "unsupported indexed assignment into a %s", asort)
		}
		i := c.toInt(l.Index)
		return c.storeField(arrSel, func(cur, sort string) string {
			return "(← setIdx " + cur + " " + i + " " + val("(← idx? "+cur+" "+i+")", elem) + ")"
		})
	}
	c.fail(lhs.Pos(), "unsupported assignment target %s", types.ExprString(lhs))
	return ""
}

func (c *nctx) storeField(l *ast.SelectorExpr, val func(cur, sort string) string) string {
	id, ok := unparen(l.X).(*ast.Ident)
	if !ok {
		c.fail(l.Pos(), "unsupported field assignment target %s", types.ExprString(l))
	}
	v, ok := c.env[c.w.info.Uses[id]]
	if !ok || (v.sort != "img" && v.sort != "hdrv") {
		c.fail(l.Pos(), "unsupported field assignment target %s", types.ExprString(l))
	}
	cur, sort := c.fieldOf(l.X, l.Sel.Name, c.w.info.TypeOf(l), l.Pos())
	field := cur[len(v.lean)+1:]
	return fmt.Sprintf("let %s : %s := { %s with %s := %s }\n", v.lean, c.leanType(v.sort), v.lean, field, val(cur, sort))
}

func (c *nctx) rhs(e ast.Expr, want string) string {
	s, sort := c.expr(e)
	if want == "word" && sort == "u32" {
		return s + ".toBitVec"
	}
	if sort != want {
		c.fail(e.Pos(), "expected a %s, found a %s", want, sort)
	}
	return s
}

// ---------------------------------------------------------------------------------------------------------------
// statements (continuation passing: `k` renders what follows)
// ---------------------------------------------------------------------------------------------------------------

func indentN(s, pad string) string {
	lines := strings.Split(strings.TrimRight(s, "\n"), "\n")
	for i := range lines {
		if lines[i] != "" {
			lines[i] = pad + lines[i]
		}
	}
	return strings.Join(lines, "\n") + "\n"
}

type nsaved struct {
	viewOf  map[*nvar]*nvar
	env     map[types.Object]*nvar
	order   []*nvar
	refKind string
	refVar  *nvar
	refTag  string
	refExpr string
}

func (c *nctx) save() nsaved {
	env := make(map[types.Object]*nvar, len(c.env))
	for k, v := range c.env {
		env[k] = v
	}
	vo := make(map[*nvar]*nvar, len(c.viewOf))
	for k, v := range c.viewOf {
		vo[k] = v
	}
	return nsaved{vo, env, append([]*nvar{}, c.order...), c.refKind, c.refVar, c.refTag, c.refExpr}
}

func (c *nctx) restore(s nsaved) {
	c.env, c.order, c.refKind, c.refVar, c.refTag, c.refExpr = s.env, s.order, s.refKind, s.refVar, s.refTag, s.refExpr
	c.viewOf = s.viewOf
}

func (c *nctx) stmts(list []ast.Stmt, k func() string) string {
	if len(list) == 0 {
		return k()
	}
	s, rest := list[0], list[1:]
	next := func() string { return c.stmts(rest, k) }
	switch s := s.(type) {
	case *ast.DeclStmt:
		gd, ok := s.Decl.(*ast.GenDecl)
		if !ok || gd.Tok != token.VAR || len(gd.Specs) != 1 {
			c.fail(s.Pos(), "unsupported declaration")
		}
		vs := gd.Specs[0].(*ast.ValueSpec)
		if len(vs.Names) != 1 || len(vs.Values) != 0 {
			c.fail(s.Pos(), "unsupported var declaration")
		}
		obj := c.w.info.Defs[vs.Names[0]]
		sort := c.sortOf(obj.Type(), s.Pos())
		zero := map[string]string{"u8": "0", "u32": "0", "int": "0", "bool": "false"}[sort]
		if zero == "" {
			c.fail(s.Pos(), "unsupported zero value of a %s", sort)
		}
		v := c.declare(obj, sort)
		return fmt.Sprintf("let %s : %s := %s\n", v.lean, c.leanType(sort), zero) + next()
	case *ast.AssignStmt:
		if c.stepRef != nil && s.Tok == token.ASSIGN && len(s.Lhs) == 1 && len(s.Rhs) == 1 {
			if id, ok := unparen(s.Lhs[0]).(*ast.Ident); ok && c.w.info.Uses[id] == c.stepRef {
				for _, r := range rest {
					// the enclosing loop's own bookkeeping after the step: `depth++` and `continue`
					if inc, ok := r.(*ast.IncDecStmt); ok && inc.Tok == token.INC {
						if _, known := c.env[c.w.info.Uses[rootIdent(inc.X)]]; !known {
							continue
						}
					}
					if br, ok := r.(*ast.BranchStmt); ok && br.Tok == token.CONTINUE && br.Label == nil {
						continue
					}
					c.fail(r.Pos(), "statements after `%s = …` in a walk step", id.Name)
				}
				return "pure " + c.rhs(s.Rhs[0], "ref") + "\n"
			}
		}
		return c.assign(s) + next()
	case *ast.IncDecStmt:
		op := "+"
		if s.Tok == token.DEC {
			op = "-"
		}
		return c.store(s.X, func(cur, sort string) string {
			if sort != "u8" && sort != "u32" && sort != "int" {
				c.fail(s.Pos(), "++/-- on a %s", sort)
			}
			return "(" + cur + " " + op + " 1)"
		}) + next()
	case *ast.ExprStmt:
		call, ok := unparen(s.X).(*ast.CallExpr)
		if !ok {
			c.fail(s.Pos(), "unsupported expression statement")
		}
		if id, ok := unparen(call.Fun).(*ast.Ident); ok && id.Name == "panic" {
			if _, isBuiltin := c.w.info.Uses[id].(*types.Builtin); isBuiltin {
				return "none\n"
			}
		}
		return c.callStmt(call) + next()
	case *ast.IfStmt:
		if c.loopCont != nil && s.Init == nil && s.Else == nil && len(s.Body.List) == 1 {
			if br, ok := s.Body.List[0].(*ast.BranchStmt); ok && br.Tok == token.CONTINUE && br.Label == nil {
				cond := c.rhs(s.Cond, "bool")
				saved := c.save()
				cont := c.loopCont()
				c.restore(saved)
				return "if " + cond + " then do\n" + indentN(cont, "  ") + "else do\n" + indentN(next(), "  ")
			}
		}
		return c.ifStmt(s, next)
	case *ast.ForStmt:
		return c.forStmt(s) + next()
	case *ast.RangeStmt:
		return c.rangeStmt(s) + next()
	case *ast.SwitchStmt:
		return c.switchStmt(s, next)
	case *ast.ReturnStmt:
		if c.stepRef != nil && len(s.Results) == 1 && c.w.text(s.Results[0]) == c.stepRef.Name()+".pointer" {
			return "none  -- the walk ends at a leaf: not a step on an inner node\n"
		}
		if c.lcpMode {
			if len(s.Results) == 1 {
				r := unparen(s.Results[0])
				if id, ok := r.(*ast.Ident); ok && c.w.info.Uses[id] == c.lcpN {
					return "pure .here\n"
				}
				if cl, ok := r.(*ast.CompositeLit); ok && len(cl.Elts) == 0 && c.w.isNamed(c.w.info.TypeOf(cl), "nodeRef") {
					return "pure .nothing\n"
				}
			}
			c.fail(s.Pos(), "unsupported return in the descent step")
		}
		if !c.retSlot {
			if len(s.Results) != 0 {
				c.fail(s.Pos(), "unsupported return of a value")
			}
			return c.finish()
		}
		if len(s.Results) != 1 {
			c.fail(s.Pos(), "unsupported return")
		}
		r := unparen(s.Results[0])
		if id, ok := r.(*ast.Ident); ok && id.Name == "nil" {
			return "pure none\n"
		}
		if u, ok := r.(*ast.UnaryExpr); ok && u.Op == token.AND {
			v, sort := c.expr(u.X)
			if sort == "ref" {
				return "pure " + v + "\n"
			}
		}
		c.fail(s.Pos(), "unsupported return value %s", types.ExprString(r))
	case *ast.BlockStmt:
		saved := c.save()
		body := c.stmts(s.List, func() string {
			inner := c.save()
			c.env, c.order = saved.env, saved.order
			out := next()
			_ = inner
			return out
		})
		return body
	}
	c.fail(s.Pos(), "unsupported statement %T", s)
	return ""
}

func (c *nctx) assign(s *ast.AssignStmt) string {
	if len(s.Lhs) != 1 || len(s.Rhs) != 1 {
		c.fail(s.Pos(), "unsupported multiple assignment")
	}
	lhs, rhs := unparen(s.Lhs[0]), unparen(s.Rhs[0])
	switch s.Tok {
	case token.DEFINE:
		id, ok := lhs.(*ast.Ident)
		if !ok {
			c.fail(s.Pos(), "unsupported := target")
		}
		obj := c.w.info.Defs[id]
		if obj == nil {
			c.fail(s.Pos(), "`:=` that re-uses %s", id.Name)
		}
		sort := c.sortOf(obj.Type(), s.Pos())
		switch sort {
		case "img":
			// n16 := nodePools[nodeKind16].Get().(*node16)   |   n4 := (*node4)(ref.pointer)
			if ta, ok := rhs.(*ast.TypeAssertExpr); ok {
				if call, ok := unparen(ta.X).(*ast.CallExpr); ok {
					if sel, ok := unparen(call.Fun).(*ast.SelectorExpr); ok && sel.Sel.Name == "Get" && len(call.Args) == 0 {
						if ie, ok := unparen(sel.X).(*ast.IndexExpr); ok {
							if pid, ok := unparen(ie.X).(*ast.Ident); ok && pid.Name == "nodePools" {
								tag := c.tagValue(ie.Index)
								v := c.declare(obj, "img")
								// the static type the pooled object is asserted to: recorded with the tag
								return fmt.Sprintf("let %s : Img C := E.pool %s  -- .(*%s)\n", v.lean, tag, c.nodeClass(obj.Type()))
							}
						}
					}
				}
			}
			if c.dispatch {
				if call, ok := rhs.(*ast.CallExpr); ok && len(call.Args) == 1 {
					if tv, ok := c.w.info.Types[call.Fun]; ok && tv.IsType() {
						if sel, ok := unparen(call.Args[0]).(*ast.SelectorExpr); ok && sel.Sel.Name == "pointer" {
							if rid, ok := unparen(sel.X).(*ast.Ident); ok && c.w.info.Uses[rid] == c.refObj {
								v := c.declare(obj, "img")
								c.recv, c.recvTag = v, "tag"
								return fmt.Sprintf("let %s : Img C := nd  -- (*%s)(%s.pointer)\n", v.lean, c.nodeClass(obj.Type()), rid.Name)
							}
						}
					}
				}
			}
			c.fail(s.Pos(), "unsupported origin of a node pointer: %s", types.ExprString(rhs))
		case "hdrv":
			// childNode := child.node()
			if call, ok := rhs.(*ast.CallExpr); ok && len(call.Args) == 0 {
				if sel, ok := unparen(call.Fun).(*ast.SelectorExpr); ok && sel.Sel.Name == "node" {
					if rid, ok := unparen(sel.X).(*ast.Ident); ok {
						if rv, ok := c.env[c.w.info.Uses[rid]]; ok && rv.sort == "ref" && c.viewOf[rv] == nil {
							v := c.declare(obj, "hdrv")
							v.view = rv
							code := fmt.Sprintf("let %s : HdrV := E.hdr (← %s)\n", v.lean, rv.lean)
							c.viewOf[rv] = v
							return code
						}
					}
				}
			}
			c.fail(s.Pos(), "unsupported origin of a *node: %s", types.ExprString(rhs))
		}
		val := c.rhs(rhs, sort)
		v := c.declare(obj, sort)
		return fmt.Sprintf("let %s : %s := %s\n", v.lean, c.leanType(sort), val)
	case token.ASSIGN:
		// *ref = …
		if st, ok := lhs.(*ast.StarExpr); ok {
			id, ok := unparen(st.X).(*ast.Ident)
			if !ok || c.w.info.Uses[id] != c.refObj {
				c.fail(s.Pos(), "unsupported store through a pointer")
			}
			if cl, ok := rhs.(*ast.CompositeLit); ok {
				var ptrVar *nvar
				tag := ""
				for _, el := range cl.Elts {
					kv, ok := el.(*ast.KeyValueExpr)
					if !ok {
						c.fail(el.Pos(), "unkeyed nodeRef literal")
					}
					switch kv.Key.(*ast.Ident).Name {
					case "pointer":
						call, ok := unparen(kv.Value).(*ast.CallExpr)
						if !ok || len(call.Args) != 1 {
							c.fail(kv.Pos(), "unsupported pointer field")
						}
						pid, ok := unparen(call.Args[0]).(*ast.Ident)
						if !ok {
							c.fail(kv.Pos(), "unsupported pointer field")
						}
						ptrVar = c.env[c.w.info.Uses[pid]]
					case "tag":
						tag = c.tagValue(kv.Value)
					}
				}
				if ptrVar == nil || ptrVar.sort != "img" || tag == "" {
					c.fail(s.Pos(), "unsupported nodeRef literal")
				}
				c.refKind, c.refVar, c.refTag = "alias", ptrVar, tag
				return fmt.Sprintf("-- *%s now designates %s (tag %s)\n", id.Name, ptrVar.lean, tag)
			}
			val := c.rhs(rhs, "ref")
			c.refKind, c.refExpr = "child", "refv"
			return "let refv : Option C := " + val + "\n"
		}
		// x.node = node{}
		if sel, ok := lhs.(*ast.SelectorExpr); ok && sel.Sel.Name == "node" {
			if cl, ok := rhs.(*ast.CompositeLit); ok && len(cl.Elts) == 0 {
				id, ok := unparen(sel.X).(*ast.Ident)
				if ok {
					if v, ok := c.env[c.w.info.Uses[id]]; ok && v.sort == "img" {
						return fmt.Sprintf("let %s : Img C := { %s with prefixLen := 0, childrenLen := 0, «prefix» := zeroPrefix }\n", v.lean, v.lean)
					}
				}
			}
			if rsel, ok := rhs.(*ast.SelectorExpr); ok && rsel.Sel.Name == "node" {
				lid, ok1 := unparen(sel.X).(*ast.Ident)
				rid, ok2 := unparen(rsel.X).(*ast.Ident)
				if ok1 && ok2 {
					lv, okl := c.env[c.w.info.Uses[lid]]
					rv, okr := c.env[c.w.info.Uses[rid]]
					if okl && okr && lv.sort == "img" && rv.sort == "img" {
						// the three header fields, in the order the field-by-field form of node.go writes them
						return fmt.Sprintf("let %s : Img C := { %s with childrenLen := %s.childrenLen }\nlet %s : Img C := { %s with prefixLen := %s.prefixLen }\nlet %s : Img C := { %s with «prefix» := %s.«prefix» }\n",
							lv.lean, lv.lean, rv.lean, lv.lean, lv.lean, rv.lean, lv.lean, lv.lean, rv.lean)
					}
				}
			}
			c.fail(s.Pos(), "unsupported assignment to the embedded header")
		}
		return c.store(lhs, func(cur, sort string) string {
			if sort == "word" {
				return c.rhs(rhs, "word")
			}
			return c.rhs(rhs, sort)
		})
	case token.ADD_ASSIGN, token.SUB_ASSIGN:
		op := "+"
		if s.Tok == token.SUB_ASSIGN {
			op = "-"
		}
		return c.store(lhs, func(cur, sort string) string {
			if sort != "u8" && sort != "u32" && sort != "int" {
				c.fail(s.Pos(), "%s on a %s", s.Tok, sort)
			}
			return "(" + cur + " " + op + " " + c.rhs(rhs, sort) + ")"
		})
	}
	c.fail(s.Pos(), "unsupported assignment %s", s.Tok)
	return ""
}

func (c *nctx) callStmt(call *ast.CallExpr) string {
	name, obj := c.calleeName(call)
	if _, isBuiltin := obj.(*types.Builtin); isBuiltin {
		switch name {
		case "copy":
			if len(call.Args) != 2 {
				break
			}
			dse, ok := unparen(call.Args[0]).(*ast.SliceExpr)
			if !ok {
				c.fail(call.Pos(), "copy into something that is not a slice expression of a field")
			}
			dsel, ok := unparen(dse.X).(*ast.SelectorExpr)
			if !ok {
				c.fail(call.Pos(), "copy into something that is not a field")
			}
			return c.storeField(dsel, func(cur, sort string) string {
				_, dlo, dhi, dsort := c.sliceArg(dse)
				src, slo, shi, ssort := c.sliceArg(call.Args[1])
				if dsort != ssort || (dsort != "bytes" && dsort != "refs") {
					c.fail(call.Pos(), "copy from a %s into a %s", ssort, dsort)
				}
				return "(← goCopy " + cur + " " + dlo + " " + dhi + " " + src + " " + slo + " " + shi + ")"
			})
		case "clear":
			if len(call.Args) != 1 {
				break
			}
			dse, ok := unparen(call.Args[0]).(*ast.SliceExpr)
			if !ok || dse.Low != nil || dse.High != nil {
				c.fail(call.Pos(), "clear of something that is not x.f[:]")
			}
			dsel, ok := unparen(dse.X).(*ast.SelectorExpr)
			if !ok {
				c.fail(call.Pos(), "clear of something that is not a field")
			}
			return c.storeField(dsel, func(cur, sort string) string {
				switch sort {
				case "bytes":
					return "(clearAll " + cur + " 0)"
				case "refs":
					return "(clearAll " + cur + " none)"
				}
				c.fail(call.Pos(), "clear of a %s", sort)
				return ""
			})
		case "panic":
			return "none\n"
		}
		c.fail(call.Pos(), "unsupported builtin call %s", name)
	}
	// nodePools[k].Put(x)
	if sel, ok := unparen(call.Fun).(*ast.SelectorExpr); ok && sel.Sel.Name == "Put" && len(call.Args) == 1 {
		if ie, ok := unparen(sel.X).(*ast.IndexExpr); ok {
			if pid, ok := unparen(ie.X).(*ast.Ident); ok && pid.Name == "nodePools" {
				x, xs := c.expr(call.Args[0])
				if xs != "img" {
					c.fail(call.Pos(), "Put of a %s", xs)
				}
				return fmt.Sprintf("let rel : List (Nat × Img C) := rel ++ [(%s, %s)]\n", c.tagValue(ie.Index), x)
			}
		}
	}
	fn, ok := obj.(*types.Func)
	if !ok || fn.Pkg() != c.w.pkg {
		c.fail(call.Pos(), "unsupported call %s", types.ExprString(call))
	}
	sig := fn.Type().(*types.Signature)
	if sig.Recv() == nil {
		// node4.go helpers that update the word through a pointer: f(&x.keys, …)
		switch name {
		case "shiftLeftClear", "shiftRightClear", "setAtPos":
			u, ok := unparen(call.Args[0]).(*ast.UnaryExpr)
			if !ok || u.Op != token.AND {
				break
			}
			ksel, ok := unparen(u.X).(*ast.SelectorExpr)
			if !ok {
				break
			}
			return c.storeField(ksel, func(cur, sort string) string {
				if sort != "word" {
					c.fail(call.Pos(), "%s on a %s", name, sort)
				}
				args := cur + " (← natOf " + c.toInt(call.Args[1]) + ")"
				if name == "setAtPos" {
					args += " " + c.rhs(call.Args[2], "u8") + ".toBitVec"
				}
				return "(Gen." + name + " " + args + ")"
			})
		}
		c.fail(call.Pos(), "unsupported call of %s", name)
	}
	// methods of the node classes translated here
	sel, ok := unparen(call.Fun).(*ast.SelectorExpr)
	if !ok {
		c.fail(call.Pos(), "unsupported method call")
	}
	rid, ok := unparen(sel.X).(*ast.Ident)
	if !ok {
		c.fail(call.Pos(), "unsupported method receiver")
	}
	rv, ok := c.env[c.w.info.Uses[rid]]
	if !ok || rv.sort != "img" {
		c.fail(call.Pos(), "unsupported method receiver %s", rid.Name)
	}
	cls := c.nodeClass(rv.obj.Type())
	switch name {
	case "clear":
		if len(call.Args) == 0 {
			return fmt.Sprintf("let %s : Img C ← %s_clear E %s\n", rv.lean, cls, rv.lean)
		}
	case "addChild", "deleteChild":
		var args []string
		passesRef := false
		for _, a := range call.Args {
			if id, ok := unparen(a).(*ast.Ident); ok && c.w.info.Uses[id] == c.refObj {
				passesRef = true
				continue
			}
			x, xs := c.expr(a)
			if xs != "u8" && xs != "ref" {
				c.fail(a.Pos(), "unsupported argument of sort %s", xs)
			}
			args = append(args, x)
		}
		if passesRef {
			// *ref must currently designate the receiver of the call (or be the dispatcher's own reference)
			if !(c.refKind == "alias" && c.refVar == rv) && !(c.dispatch && c.refKind == "") {
				c.fail(call.Pos(), "%s.%s(ref, …) while *ref does not designate %s", rid.Name, name, rid.Name)
			}
			c.refKind, c.refExpr = "dyn", "r.out"
			return fmt.Sprintf("let r ← %s_%s E %s %s\nlet rel : List (Nat × Img C) := rel ++ r.released\n", cls, name, rv.lean, strings.Join(args, " "))
		}
		return fmt.Sprintf("let %s : Img C ← %s_%s E %s %s\n", rv.lean, cls, name, rv.lean, strings.Join(args, " "))
	}
	c.fail(call.Pos(), "unsupported method call %s", types.ExprString(call))
	return ""
}

func (c *nctx) ifStmt(s *ast.IfStmt, next func() string) string {
	saved := c.save()
	pre := ""
	if s.Init != nil {
		as, ok := s.Init.(*ast.AssignStmt)
		if !ok {
			c.fail(s.Pos(), "unsupported if-initialiser")
		}
		pre = c.assign(as)
	}
	cond := c.rhs(s.Cond, "bool")
	afterInit := c.save()
	thenCode := c.stmts(s.Body.List, func() string {
		c.env, c.order = saved.env, mergeOrder(saved.order, c.order)
		return next()
	})
	c.restore(afterInit)
	var elseCode string
	switch e := s.Else.(type) {
	case nil:
		c.env, c.order = saved.env, saved.order
		elseCode = next()
	case *ast.BlockStmt:
		elseCode = c.stmts(e.List, func() string {
			c.env, c.order = saved.env, mergeOrder(saved.order, c.order)
			return next()
		})
	default:
		c.fail(s.Pos(), "unsupported else-if")
	}
	c.restore(saved)
	return pre + "if " + cond + " then do\n" + indentN(thenCode, "  ") + "else do\n" + indentN(elseCode, "  ")
}

// mergeOrder keeps the outer scope's variables (their Lean names may have been rebound inside the block – a
// rebinding of an outer variable is visible after the block, a variable declared inside is not).
func mergeOrder(outer, inner []*nvar) []*nvar { return outer }

func (c *nctx) switchStmt(s *ast.SwitchStmt, next func() string) string {
	if s.Init != nil || s.Tag == nil {
		c.fail(s.Pos(), "unsupported switch")
	}
	if kid, ok := unparen(s.Tag).(*ast.Ident); ok && c.stepKind != nil && c.w.info.Uses[kid] == c.stepKind {
		// `kind := ref.tag` of the enclosing walk
	} else {
		sel, ok := unparen(s.Tag).(*ast.SelectorExpr)
		if !ok || sel.Sel.Name != "tag" || !c.dispatch {
			c.fail(s.Pos(), "unsupported switch tag")
		}
		if rid, ok := unparen(sel.X).(*ast.Ident); !ok || c.w.info.Uses[rid] != c.refObj {
			c.fail(s.Pos(), "unsupported switch tag")
		}
	}
	var b strings.Builder
	b.WriteString("match tag with\n")
	hasDefault := false
	saved := c.save()
	for _, cc := range s.Body.List {
		cl := cc.(*ast.CaseClause)
		c.restore(saved)
		body := c.stmts(cl.Body, func() string {
			c.env, c.order = saved.env, saved.order
			return next()
		})
		if cl.List == nil {
			hasDefault = true
			b.WriteString("| _ => do\n" + indentN(body, "  "))
			continue
		}
		if len(cl.List) != 1 {
			c.fail(cl.Pos(), "unsupported case list")
		}
		b.WriteString("| " + c.tagValue(cl.List[0]) + " => do\n" + indentN(body, "  "))
	}
	c.restore(saved)
	if !hasDefault {
		b.WriteString("| _ => do\n" + indentN(next(), "  "))
	}
	return b.String()
}

// assignedRoots: the variables (re)bound by the statements of a loop body.
func (c *nctx) assignedRoots(n ast.Node) []*nvar {
	set := map[*nvar]bool{}
	add := func(e ast.Expr) {
		id := rootIdent(e)
		if id == nil {
			return
		}
		if v, ok := c.env[c.w.info.Uses[id]]; ok {
			set[v] = true
		}
	}
	ast.Inspect(n, func(x ast.Node) bool {
		switch x := x.(type) {
		case *ast.AssignStmt:
			if x.Tok != token.DEFINE {
				for _, l := range x.Lhs {
					add(l)
				}
			}
		case *ast.IncDecStmt:
			add(x.X)
		case *ast.CallExpr:
			name, obj := c.calleeName(x)
			if _, isBuiltin := obj.(*types.Builtin); isBuiltin && (name == "copy" || name == "clear") && len(x.Args) > 0 {
				add(x.Args[0])
			} else if len(x.Args) > 0 {
				if u, ok := unparen(x.Args[0]).(*ast.UnaryExpr); ok && u.Op == token.AND {
					add(u.X)
				}
			}
			if sel, ok := unparen(x.Fun).(*ast.SelectorExpr); ok {
				if _, isFn := obj.(*types.Func); isFn {
					add(sel.X)
				}
			}
		case *ast.BranchStmt:
			if x.Tok != token.CONTINUE || x.Label != nil {
				c.fail(x.Pos(), "break/goto inside a loop is outside the fragment")
			}
		case *ast.ReturnStmt:
			c.fail(x.Pos(), "return inside a loop is outside the fragment")
		}
		return true
	})
	var out []*nvar
	for _, v := range c.order {
		if set[v] {
			out = append(out, v)
		}
	}
	return out
}

func (c *nctx) forStmt(s *ast.ForStmt) string {
	pre := ""
	if s.Init != nil {
		as, ok := s.Init.(*ast.AssignStmt)
		if !ok {
			c.fail(s.Pos(), "unsupported loop initialiser")
		}
		pre = c.assign(as)
	}
	if s.Cond == nil {
		c.fail(s.Pos(), "loop without a condition")
	}
	probe := &ast.BlockStmt{List: append([]ast.Stmt{}, s.Body.List...)}
	if s.Post != nil {
		probe.List = append(probe.List, s.Post)
	}
	return pre + c.loopCore(s.Pos(), probe, nil, func() string { return c.rhs(s.Cond, "bool") }, s.Body.List, func() string {
		if s.Post == nil {
			return ""
		}
		return c.stmts([]ast.Stmt{s.Post}, func() string { return "" })
	})
}

// `for i := range X` (X an integer that the body does not change) is `for i := 0; i < X; i++`.
func (c *nctx) rangeStmt(s *ast.RangeStmt) string {
	if s.Tok != token.DEFINE || s.Value != nil || s.Key == nil {
		c.fail(s.Pos(), "unsupported range statement")
	}
	id, ok := s.Key.(*ast.Ident)
	if !ok || id.Name == "_" {
		c.fail(s.Pos(), "unsupported range key")
	}
	obj := c.w.info.Defs[id]
	sort := c.sortOf(obj.Type(), s.Pos())
	if sort != "int" && sort != "u8" && sort != "u32" {
		c.fail(s.Pos(), "range over a %s", sort)
	}
	// the bound must not be assigned by the body (it is evaluated once)
	probe := &ast.BlockStmt{List: s.Body.List}
	if root := rootIdent(s.X); root != nil {
		if v, ok := c.env[c.w.info.Uses[root]]; ok {
			for _, a := range c.assignedRoots(probe) {
				if a == v {
					c.fail(s.Pos(), "the bound of a range loop is assigned in its body")
				}
			}
		}
	}
	v := c.declare(obj, sort)
	ty := c.leanType(sort)
	pre := fmt.Sprintf("let %s : %s := (0 : %s)\n", v.lean, ty, ty)
	bound, bsort := c.expr(s.X)
	if bsort != sort {
		c.fail(s.Pos(), "range bound of sort %s for a counter of sort %s", bsort, sort)
	}
	return pre + c.loopCore(s.Pos(), probe, v, func() string { return "(decide (" + v.lean + " < " + bound + "))" }, s.Body.List, func() string {
		return fmt.Sprintf("let %s : %s := (%s + 1)\n", v.lean, ty, v.lean)
	})
}

func (c *nctx) loopCore(pos token.Pos, probe ast.Node, counter *nvar, condCode func() string, bodyStmts []ast.Stmt, postCode func() string) string {
	// state = variables assigned in body/post (including a counter declared by the initialiser)
	assigned := c.assignedRoots(probe)
	inState := map[*nvar]bool{}
	for _, v := range assigned {
		inState[v] = true
	}
	if counter != nil {
		inState[counter] = true
	}
	var state []*nvar
	for _, v := range c.order {
		if inState[v] {
			state = append(state, v)
		}
	}
	if len(state) == 0 {
		c.fail(pos, "loop that assigns nothing")
	}
	var params, args []string
	for _, v := range c.order {
		if !inState[v] {
			params = append(params, fmt.Sprintf("(%s : %s)", v.lean, c.leanType(v.sort)))
			args = append(args, v.lean)
		}
	}
	var stNames, stTypes []string
	for _, v := range state {
		stNames = append(stNames, v.lean)
		stTypes = append(stTypes, c.leanType(v.sort))
	}
	tuple := "(" + strings.Join(stNames, ", ") + ")"
	stType := strings.Join(stTypes, " × ")
	name := fmt.Sprintf("%s.loop%d", c.fname, c.nloops)
	c.nloops++
	inner := c.save()
	cond := condCode()
	cont := func() string {
		c.env, c.order = inner.env, inner.order
		return postCode() + name + " E " + strings.Join(args, " ") + " fuel " + tuple + "\n"
	}
	outerCont := c.loopCont
	c.loopCont = cont
	body := c.stmts(bodyStmts, cont)
	c.loopCont = outerCont
	c.restore(inner)
	var b strings.Builder
	fmt.Fprintf(&b, "def %s (E : Env C) %s : Nat → %s → Option (%s)\n", name, strings.Join(params, " "), stType, stType)
	fmt.Fprintf(&b, "  | 0, _ => none\n  | fuel+1, %s => do\n", tuple)
	b.WriteString("    if " + cond + " then do\n" + indentN(body, "      ") + "    else pure " + tuple + "\n")
	c.loops = append(c.loops, b.String())
	// the counter of the initialiser stays visible only inside the loop in Go; its Lean binding is harmless
	return fmt.Sprintf("let %s ← %s E %s loopFuel %s\n", tuple, name, strings.Join(args, " "), tuple)
}

// finish: what the function reports when it returns.
func (c *nctx) finish() string {
	if c.pushQ != nil {
		return "pure " + c.pushQ.lean + "\n"
	}
	if !c.withRef {
		return "pure " + c.recv.lean + "\n"
	}
	switch c.refKind {
	case "":
		if c.recv == nil {
			c.fail(token.NoPos, "dispatcher that returns without looking at the node")
		}
		return fmt.Sprintf("pure { out := .node %s %s, released := rel }\n", c.recvTag, c.recv.lean)
	case "alias":
		return fmt.Sprintf("pure { out := .node %s %s, released := rel }\n", c.refTag, c.refVar.lean)
	case "dyn":
		return "pure { out := " + c.refExpr + ", released := rel }\n"
	case "child":
		return "pure { out := .child " + c.refExpr + ", released := rel }\n"
	}
	panic("refKind")
}

// ---------------------------------------------------------------------------------------------------------------
// functions
// ---------------------------------------------------------------------------------------------------------------

var classTag = map[string]string{"node4": "nodeKind4", "node16": "nodeKind16", "node48": "nodeKind48", "node256": "nodeKind256"}

func (w *world) findMethod(name, recv string) *ast.FuncDecl {
	for _, f := range w.art.Syntax {
		for _, d := range f.Decls {
			fd, ok := d.(*ast.FuncDecl)
			if !ok || fd.Name.Name != name || fd.Body == nil || fd.Recv == nil {
				continue
			}
			if w.recvBase(fd) == recv {
				return fd
			}
		}
	}
	failf("node.go translator: method %s.%s not found", recv, name)
	return nil
}

func (w *world) genNodeMethod(recv, name string) string {
	fd := w.findMethod(name, recv)
	c := &nctx{w: w, fname: recv + "_" + name, env: map[types.Object]*nvar{}, used: map[string]int{}, viewOf: map[*nvar]*nvar{}}
	if len(fd.Recv.List) != 1 || len(fd.Recv.List[0].Names) != 1 {
		w.failAt(fd.Pos(), "node.go translator: unnamed receiver")
	}
	var header []string
	rid := fd.Recv.List[0].Names[0]
	robj := w.info.Defs[rid]
	if recv == "nodeRef" {
		c.dispatch, c.withRef, c.refObj = true, true, robj
		header = append(header, "(tag : Nat)", "(nd : Img C)")
		c.used["tag"], c.used["nd"] = 1, 1
	} else {
		c.recv = c.declare(robj, "img")
		header = append(header, fmt.Sprintf("(%s : Img C)", c.recv.lean))
		k := w.pkg.Scope().Lookup(classTag[recv]).(*types.Const)
		c.recvTag = k.Val().ExactString()
	}
	for _, field := range fd.Type.Params.List {
		for _, id := range field.Names {
			obj := w.info.Defs[id]
			if p, ok := obj.Type().(*types.Pointer); ok && w.isNamed(p.Elem(), "nodeRef") {
				if c.refObj != nil {
					w.failAt(id.Pos(), "node.go translator: second *nodeRef")
				}
				c.refObj, c.withRef = obj, true
				continue
			}
			sort := c.sortOf(obj.Type(), id.Pos())
			if sort != "u8" && sort != "ref" {
				w.failAt(id.Pos(), "node.go translator: unsupported parameter type %s", obj.Type())
			}
			v := c.declare(obj, sort)
			header = append(header, fmt.Sprintf("(%s : %s)", v.lean, c.leanType(sort)))
		}
	}
	resType := "Img C"
	if c.withRef {
		resType = "Res C"
	}
	if fd.Type.Results != nil {
		if len(fd.Type.Results.List) != 1 {
			w.failAt(fd.Pos(), "node.go translator: unsupported results")
		}
		p, ok := w.info.TypeOf(fd.Type.Results.List[0].Type).(*types.Pointer)
		if !ok || !w.isNamed(p.Elem(), "nodeRef") {
			w.failAt(fd.Pos(), "node.go translator: unsupported result type")
		}
		c.retSlot, c.withRef = true, false
		resType = "Option C"
	}
	c.used["rel"], c.used["r"], c.used["refv"], c.used["E"], c.used["fuel"], c.used["loopFuel"] = 1, 1, 1, 1, 1, 1
	body := c.stmts(fd.Body.List, func() string {
		if c.retSlot {
			c.fail(fd.Body.Rbrace, "function body does not end in a return")
		}
		return c.finish()
	})
	var b strings.Builder
	for _, l := range c.loops {
		b.WriteString(l + "\n")
	}
	fmt.Fprintf(&b, "def %s (E : Env C) %s : Option (%s) := do\n", c.fname, strings.Join(header, " "), resType)
	if c.withRef {
		b.WriteString("  let rel : List (Nat × Img C) := []\n")
	}
	b.WriteString(indentN(body, "  "))
	return b.String()
}

// genWalkStep: `minimum` / `maximum` of tree.go are `for ref.pointer != nil { kind := ref.tag; if kind == nodeKindLeaf
// { return ref.pointer }; switch kind { … ref = <child> … } }`.  The switch – one step of the walk on an inner node –
// becomes `<name>_step (tag) (nd) : Option (Option C)`: the reference the walk continues with (`none` inside the
// Option monad = the Go code would index out of range; the leaf test and the nil test of the loop head are what
// `RT.minimum/maximum` do with the result).
func (w *world) genWalkStep(name string) string {
	fd := w.findFunc(name, "")
	c := &nctx{w: w, fname: name + "_step", env: map[types.Object]*nvar{}, used: map[string]int{}, viewOf: map[*nvar]*nvar{}}
	if len(fd.Type.Params.List) != 1 || len(fd.Type.Params.List[0].Names) != 1 {
		w.failAt(fd.Pos(), "node.go translator: %s: expected one parameter", name)
	}
	c.stepRef = w.info.Defs[fd.Type.Params.List[0].Names[0]]
	c.refObj, c.dispatch = c.stepRef, true
	if !w.isNamed(c.stepRef.Type(), "nodeRef") {
		w.failAt(fd.Pos(), "node.go translator: %s: the parameter is not a nodeRef", name)
	}
	if len(fd.Body.List) != 2 {
		w.failAt(fd.Pos(), "node.go translator: %s: expected `for ref.pointer != nil { … }; return nil`", name)
	}
	loop, ok := fd.Body.List[0].(*ast.ForStmt)
	if !ok || loop.Init != nil || loop.Post != nil || loop.Cond == nil || w.text(loop.Cond) != c.stepRef.Name()+".pointer != nil" {
		w.failAt(fd.Pos(), "node.go translator: %s: expected `for %s.pointer != nil`", name, c.stepRef.Name())
	}
	if rs, ok := fd.Body.List[1].(*ast.ReturnStmt); !ok || len(rs.Results) != 1 || w.text(rs.Results[0]) != "nil" {
		w.failAt(fd.Pos(), "node.go translator: %s: expected a final `return nil`", name)
	}
	body := loop.Body.List
	var sw *ast.SwitchStmt
	if len(body) == 1 {
		// the leaf test folded into the switch: `switch ref.tag { case nodeKindLeaf: return ref.pointer; case nodeKind4: … }`
		var ok bool
		if sw, ok = body[0].(*ast.SwitchStmt); !ok || sw.Tag == nil || w.text(sw.Tag) != c.stepRef.Name()+".tag" {
			w.failAt(loop.Pos(), "node.go translator: %s: expected `kind := ref.tag; if kind == nodeKindLeaf { return ref.pointer }; switch kind { … }` or a switch on ref.tag", name)
		}
	} else {
		if len(body) != 3 {
			w.failAt(loop.Pos(), "node.go translator: %s: expected `kind := ref.tag; if kind == nodeKindLeaf { return ref.pointer }; switch kind { … }`", name)
		}
		as, ok := body[0].(*ast.AssignStmt)
		if !ok || as.Tok != token.DEFINE || len(as.Lhs) != 1 || w.text(as.Rhs[0]) != c.stepRef.Name()+".tag" {
			w.failAt(body[0].Pos(), "node.go translator: %s: expected `kind := %s.tag`", name, c.stepRef.Name())
		}
		c.stepKind = w.info.Defs[as.Lhs[0].(*ast.Ident)]
		ifs, ok := body[1].(*ast.IfStmt)
		if !ok || ifs.Else != nil || ifs.Init != nil || w.text(ifs.Cond) != c.stepKind.Name()+" == nodeKindLeaf" || len(ifs.Body.List) != 1 ||
			w.text(ifs.Body.List[0]) != "return "+c.stepRef.Name()+".pointer" {
			w.failAt(body[1].Pos(), "node.go translator: %s: expected `if kind == nodeKindLeaf { return ref.pointer }`", name)
		}
		if sw, ok = body[2].(*ast.SwitchStmt); !ok {
			w.failAt(body[2].Pos(), "node.go translator: %s: expected a switch on the kind", name)
		}
	}
	c.used["tag"], c.used["nd"], c.used["E"], c.used["fuel"], c.used["loopFuel"] = 1, 1, 1, 1, 1
	code := c.switchStmt(sw, func() string {
		c.fail(sw.End(), "a case of the walk step that does not assign the reference")
		return ""
	})
	var b strings.Builder
	for _, l := range c.loops {
		b.WriteString(l + "\n")
	}
	fmt.Fprintf(&b, "def %s (E : Env C) (tag : Nat) (nd : Img C) : Option (Option C) := do\n%s", c.fname, indentN(code, "  "))
	return b.String()
}

// genPushStep: all() / backward() of tree.go are `return func(yield …) { …; var q []nodeRef; q = append(q, root);
// for len(q) != 0 { n := q[len(q)-1]; q = q[:len(q)-1]; if n.tag == nodeKindLeaf { … continue }; switch n.tag { … } } }`.
// The switch – what the traversal pushes for one inner node – becomes `<name>_push (tag) (nd) (q) : Option (List (Option C))`:
// the stack after the per-class loops have appended the node's children (in the order of appending).
func (w *world) genPushStep(name string) string {
	fd := w.findFunc(name, "")
	c := &nctx{w: w, fname: name + "_push", env: map[types.Object]*nvar{}, used: map[string]int{}, viewOf: map[*nvar]*nvar{}}
	fail := func(pos token.Pos, what string) { w.failAt(pos, "tree.go traversal translator (%s): expected %s", name, what) }
	if len(fd.Body.List) != 1 {
		fail(fd.Pos(), "a single `return func(yield …) { … }`")
	}
	ret, ok := fd.Body.List[0].(*ast.ReturnStmt)
	if !ok || len(ret.Results) != 1 {
		fail(fd.Pos(), "a single `return func(yield …) { … }`")
	}
	lit, ok := unparen(ret.Results[0]).(*ast.FuncLit)
	if !ok {
		fail(fd.Pos(), "a function literal")
	}
	var loop *ast.ForStmt
	var qObj types.Object
	for _, st := range lit.Body.List {
		if ds, ok := st.(*ast.DeclStmt); ok {
			if gd, ok := ds.Decl.(*ast.GenDecl); ok && gd.Tok == token.VAR && len(gd.Specs) == 1 {
				vs := gd.Specs[0].(*ast.ValueSpec)
				if len(vs.Names) == 1 && len(vs.Values) == 0 {
					if sl, ok := w.info.Defs[vs.Names[0]].Type().Underlying().(*types.Slice); ok && w.isNamed(sl.Elem(), "nodeRef") {
						qObj = w.info.Defs[vs.Names[0]]
					}
				}
			}
		}
		if f, ok := st.(*ast.ForStmt); ok && f.Init == nil && f.Post == nil && f.Cond != nil && qObj != nil && w.text(f.Cond) == "len("+qObj.Name()+") != 0" {
			loop = f
		}
	}
	if loop == nil {
		fail(lit.Pos(), "`var q []nodeRef` and `for len(q) != 0 { … }`")
	}
	body := loop.Body.List
	if len(body) != 4 {
		fail(loop.Pos(), "`n := q[len(q)-1]; q = q[:len(q)-1]; if n.tag == nodeKindLeaf { … }; switch n.tag { … }`")
	}
	q := qObj.Name()
	as, ok := body[0].(*ast.AssignStmt)
	if !ok || as.Tok != token.DEFINE || len(as.Lhs) != 1 || w.text(as.Rhs[0]) != q+"[len("+q+")-1]" {
		fail(body[0].Pos(), "`n := q[len(q)-1]`")
	}
	nObj := w.info.Defs[as.Lhs[0].(*ast.Ident)]
	if w.text(body[1]) != q+" = "+q+"[:len("+q+")-1]" {
		fail(body[1].Pos(), "`q = q[:len(q)-1]`")
	}
	ifs, ok := body[2].(*ast.IfStmt)
	if !ok || w.text(ifs.Cond) != nObj.Name()+".tag == nodeKindLeaf" || len(ifs.Body.List) == 0 {
		fail(body[2].Pos(), "`if n.tag == nodeKindLeaf { … continue }`")
	}
	if br, ok := ifs.Body.List[len(ifs.Body.List)-1].(*ast.BranchStmt); !ok || br.Tok != token.CONTINUE {
		fail(body[2].Pos(), "the leaf branch to end in `continue`")
	}
	sw, ok := body[3].(*ast.SwitchStmt)
	if !ok {
		// the per-class loops extracted into a helper: `q = pushAll(q, n)` with
		// `func pushAll(q []nodeRef, n nodeRef) []nodeRef { switch n.tag { … }; return q }` – translate the helper's switch
		if as, isAs := body[3].(*ast.AssignStmt); isAs && as.Tok == token.ASSIGN && len(as.Lhs) == 1 && len(as.Rhs) == 1 && w.text(as.Lhs[0]) == q {
			if call, isCall := unparen(as.Rhs[0]).(*ast.CallExpr); isCall && len(call.Args) == 2 && w.text(call.Args[0]) == q && w.text(call.Args[1]) == nObj.Name() {
				if fid, isId := unparen(call.Fun).(*ast.Ident); isId {
					if hf, isFn := w.info.Uses[fid].(*types.Func); isFn && hf.Pkg() == w.pkg {
						hd := w.findFunc(fid.Name, "")
						if len(hd.Type.Params.List) == 2 && len(hd.Body.List) == 2 && len(hd.Type.Params.List[0].Names) == 1 && len(hd.Type.Params.List[1].Names) == 1 {
							hq := w.info.Defs[hd.Type.Params.List[0].Names[0]]
							hn := w.info.Defs[hd.Type.Params.List[1].Names[0]]
							hsw, isSw := hd.Body.List[0].(*ast.SwitchStmt)
							if isSw && w.text(hd.Body.List[1]) == "return "+hq.Name() && w.isNamed(hn.Type(), "nodeRef") {
								sw, ok, qObj, nObj = hsw, true, hq, hn
							}
						}
					}
				}
			}
		}
	}
	if !ok {
		fail(body[3].Pos(), "a switch on n.tag (or `q = helper(q, n)` with the switch in the helper)")
	}
	c.stepRef, c.refObj, c.dispatch = nil, nObj, true
	c.used["tag"], c.used["nd"], c.used["E"], c.used["fuel"], c.used["loopFuel"] = 1, 1, 1, 1, 1
	c.pushQ = c.declare(qObj, "refs")
	code := c.switchStmt(sw, func() string { return c.finish() })
	var b strings.Builder
	for _, l := range c.loops {
		b.WriteString(l + "\n")
	}
	fmt.Fprintf(&b, "def %s (E : Env C) (tag : Nat) (nd : Img C) (%s : List (Option C)) : Option (List (Option C)) := do\n%s", c.fname, c.pushQ.lean, indentN(code, "  "))
	return b.String()
}

// genRangePushStep: rangeScan's loop body ends in the same switch, pushing `rangeEntry{child, childDepth}`; whatever the
// switch reads from the enclosing scope besides the stack and the node (here `childDepth`) becomes a parameter.
func (w *world) genRangePushStep() string {
	name := "rangeScan"
	fd := w.findFunc(name, "")
	c := &nctx{w: w, fname: name + "_push", env: map[types.Object]*nvar{}, used: map[string]int{}, viewOf: map[*nvar]*nvar{}}
	fail := func(pos token.Pos, what string) { w.failAt(pos, "tree.go traversal translator (%s): expected %s", name, what) }
	var lit *ast.FuncLit
	for _, st := range fd.Body.List {
		if ret, ok := st.(*ast.ReturnStmt); ok && len(ret.Results) == 1 {
			lit, _ = unparen(ret.Results[0]).(*ast.FuncLit)
		}
	}
	if lit == nil {
		fail(fd.Pos(), "`return func(yield …) { … }`")
	}
	var loop *ast.ForStmt
	var qObj types.Object
	for _, st := range lit.Body.List {
		if ds, ok := st.(*ast.DeclStmt); ok {
			if gd, ok := ds.Decl.(*ast.GenDecl); ok && gd.Tok == token.VAR && len(gd.Specs) == 1 {
				vs := gd.Specs[0].(*ast.ValueSpec)
				if len(vs.Names) == 1 && len(vs.Values) == 0 {
					if sl, ok := w.info.Defs[vs.Names[0]].Type().Underlying().(*types.Slice); ok && w.isNamed(sl.Elem(), "rangeEntry") {
						qObj = w.info.Defs[vs.Names[0]]
					}
				}
			}
		}
		if f, ok := st.(*ast.ForStmt); ok && f.Init == nil && f.Post == nil && f.Cond != nil && qObj != nil && w.text(f.Cond) == "len("+qObj.Name()+") != 0" {
			loop = f
		}
	}
	if loop == nil {
		fail(lit.Pos(), "`var q []rangeEntry` and `for len(q) != 0 { … }`")
	}
	body := loop.Body.List
	sw, ok := body[len(body)-1].(*ast.SwitchStmt)
	if !ok {
		fail(loop.Pos(), "the loop body to end in `switch n.tag { … }`")
	}
	sel, ok := unparen(sw.Tag).(*ast.SelectorExpr)
	if !ok || sel.Sel.Name != "tag" {
		fail(sw.Pos(), "a switch on n.tag")
	}
	nid, ok := unparen(sel.X).(*ast.Ident)
	if !ok {
		fail(sw.Pos(), "a switch on n.tag")
	}
	nObj := w.info.Uses[nid]
	c.refObj, c.dispatch = nObj, true
	c.used["tag"], c.used["nd"], c.used["E"], c.used["fuel"], c.used["loopFuel"] = 1, 1, 1, 1, 1
	c.pushQ = c.declare(qObj, "ents")
	// free int variables of the switch (declared in the loop body before it) are parameters
	var extra []string
	seen := map[types.Object]bool{}
	ast.Inspect(sw.Body, func(x ast.Node) bool {
		if id, ok := x.(*ast.Ident); ok {
			obj := w.info.Uses[id]
			if v, ok := obj.(*types.Var); ok && !seen[obj] && obj != nObj && obj != qObj && v.Pos() < sw.Pos() && v.Pos() > loop.Pos() && !v.IsField() {
				seen[obj] = true
				if b, ok := v.Type().Underlying().(*types.Basic); !ok || b.Kind() != types.Int {
					w.failAt(id.Pos(), "tree.go traversal translator (%s): the switch reads %s of type %s", name, id.Name, v.Type())
				}
				nv := c.declare(obj, "int")
				extra = append(extra, fmt.Sprintf("(%s : Int)", nv.lean))
			}
		}
		return true
	})
	code := c.switchStmt(sw, func() string { return c.finish() })
	var b strings.Builder
	for _, l := range c.loops {
		b.WriteString(l + "\n")
	}
	fmt.Fprintf(&b, "def %s (E : Env C) (tag : Nat) (nd : Img C) (%s : List (Option C × Int)) %s : Option (List (Option C × Int)) := do\n%s",
		c.fname, c.pushQ.lean, strings.Join(extra, " "), indentN(code, "  "))
	return b.String()
}

// genLcpStep: lowestCommonParent is `n := root; depth := 0; for n.pointer != nil && n.tag != nodeKindLeaf { <step> };
// return n`, the step ending in `child := n.findChild(prefix[depth]); if child == nil { return nodeRef{} }; n = *child;
// depth++`.  The step becomes `lowestCommonParent_step (hdr) (pm) (prefix) (depth) : Option Lcp` – `.here` (return n),
// `.nothing` (return nodeRef{}), `.descend b depth'` (look up byte b, continue at depth').  `prefixMismatch(n, prefix,
// depth)` is the parameter `pm` (its meaning is `GenLoops.prefixMismatch_eq`).
func (w *world) genLcpStep() string {
	name := "lowestCommonParent"
	fd := w.findFunc(name, "")
	c := &nctx{w: w, fname: name + "_step", env: map[types.Object]*nvar{}, used: map[string]int{}, viewOf: map[*nvar]*nvar{}, lcpMode: true}
	fail := func(pos token.Pos, what string) { w.failAt(pos, "tree.go descent translator: expected %s", what) }
	if len(fd.Type.Params.List) != 2 {
		fail(fd.Pos(), "the parameters (root nodeRef, prefix []byte)")
	}
	prefixObj := w.info.Defs[fd.Type.Params.List[1].Names[0]]
	if len(fd.Body.List) != 4 {
		fail(fd.Pos(), "`n := root; depth := 0; for … { … }; return n`")
	}
	a0, ok0 := fd.Body.List[0].(*ast.AssignStmt)
	a1, ok1 := fd.Body.List[1].(*ast.AssignStmt)
	loop, ok2 := fd.Body.List[2].(*ast.ForStmt)
	if !ok0 || !ok1 || !ok2 || a0.Tok != token.DEFINE || a1.Tok != token.DEFINE || w.text(a0.Rhs[0]) != fd.Type.Params.List[0].Names[0].Name || w.text(a1.Rhs[0]) != "0" {
		fail(fd.Pos(), "`n := root; depth := 0; for … { … }; return n`")
	}
	c.lcpN = w.info.Defs[a0.Lhs[0].(*ast.Ident)]
	depthObj := w.info.Defs[a1.Lhs[0].(*ast.Ident)]
	nn := c.lcpN.Name()
	if loop.Init != nil || loop.Post != nil || w.text(loop.Cond) != nn+".pointer != nil && "+nn+".tag != nodeKindLeaf" {
		fail(loop.Pos(), "`for n.pointer != nil && n.tag != nodeKindLeaf`")
	}
	if w.text(fd.Body.List[3]) != "return "+nn {
		fail(fd.Body.List[3].Pos(), "a final `return n`")
	}
	body := loop.Body.List
	if len(body) < 5 {
		fail(loop.Pos(), "the step to end in `child := n.findChild(prefix[depth]); if child == nil { return nodeRef{} }; n = *child; depth++`")
	}
	tail := body[len(body)-4:]
	dn := depthObj.Name()
	ca, ok := tail[0].(*ast.AssignStmt)
	if !ok || ca.Tok != token.DEFINE || w.text(ca.Rhs[0]) != nn+".findChild("+prefixObj.Name()+"["+dn+"])" {
		fail(tail[0].Pos(), "`child := n.findChild(prefix[depth])`")
	}
	cn := ca.Lhs[0].(*ast.Ident).Name
	if ifs, ok := tail[1].(*ast.IfStmt); !ok || w.text(ifs.Cond) != cn+" == nil" || len(ifs.Body.List) != 1 || w.text(ifs.Body.List[0]) != "return nodeRef{}" || ifs.Else != nil {
		fail(tail[1].Pos(), "`if child == nil { return nodeRef{} }`")
	}
	if w.text(tail[2]) != nn+" = *"+cn || w.text(tail[3]) != dn+"++" {
		fail(tail[2].Pos(), "`n = *child; depth++`")
	}
	// parameters: the node's header (through `node := n.node()`), pm, prefix, depth
	c.used["pm"], c.used["E"], c.used["hdr"] = 1, 1, 1
	nv := c.declare(c.lcpN, "ref")
	pv := c.declare(prefixObj, "bytes")
	dv := c.declare(depthObj, "int")
	code := c.stmts(body[:len(body)-4], func() string {
		return fmt.Sprintf("pure (.descend (← idx? %s %s) (%s + 1))\n", pv.lean, dv.lean, dv.lean)
	})
	var b strings.Builder
	b.WriteString("inductive Lcp where\n  | here\n  | nothing\n  | descend (b : UInt8) (depth : Int)\n  deriving DecidableEq, Repr\n\n")
	fmt.Fprintf(&b, "def %s (E : Env C) (%s : Option C) (pm : Int) (%s : Bytes) (%s : Int) : Option Lcp := do\n%s", c.fname, nv.lean, pv.lean, dv.lean, indentN(code, "  "))
	return b.String()
}

func genRangeOps(w *world) string {
	var b strings.Builder
	b.WriteString("-- GENERATED by tools/extract from /repo/tree.go — do not edit.\n")
	b.WriteString("import ArtVerif.Model.GoNode\n")
	b.WriteString("set_option linter.unusedVariables false\n")
	b.WriteString("namespace ArtVerif.Gen.RangeOps\nopen ArtVerif ArtVerif.GoNode\nvariable {C : Type}\n\n")
	b.WriteString("def loopFuel : Nat := 300\n\n")
	b.WriteString("-- what rangeScan pushes for one inner node: (child, depth of the child's path)\n")
	b.WriteString(w.genRangePushStep() + "\n")
	b.WriteString("end ArtVerif.Gen.RangeOps\n")
	return b.String()
}

func genLcpOps(w *world) string {
	var b strings.Builder
	b.WriteString("-- GENERATED by tools/extract from /repo/tree.go — do not edit.\n")
	b.WriteString("import ArtVerif.Model.GoNode\n")
	b.WriteString("set_option linter.unusedVariables false\n")
	b.WriteString("namespace ArtVerif.Gen.LcpOps\nopen ArtVerif ArtVerif.GoNode\nvariable {C : Type}\n\n")
	b.WriteString("-- one step of lowestCommonParent (the body of its descent loop)\n")
	b.WriteString(w.genLcpStep() + "\n")
	b.WriteString("end ArtVerif.Gen.LcpOps\n")
	return b.String()
}

func genIterOps(w *world) string {
	var b strings.Builder
	b.WriteString("-- GENERATED by tools/extract from /repo/tree.go — do not edit.\n")
	b.WriteString("import ArtVerif.Model.GoNode\n")
	b.WriteString("set_option linter.unusedVariables false\n")
	b.WriteString("namespace ArtVerif.Gen.IterOps\nopen ArtVerif ArtVerif.GoNode\nvariable {C : Type}\n\n")
	b.WriteString("def loopFuel : Nat := 300\n\n")
	b.WriteString("-- what the traversals push for one inner node (the switch inside `for len(q) != 0`)\n")
	for _, f := range []string{"all", "backward", "filter"} {
		b.WriteString(w.genPushStep(f) + "\n")
	}
	b.WriteString("end ArtVerif.Gen.IterOps\n")
	return b.String()
}

func genNodeOps(w *world) string {
	var b strings.Builder
	b.WriteString("-- GENERATED by tools/extract from /repo/node.go — do not edit.\n")
	b.WriteString("import ArtVerif.Model.GoNode\n")
	b.WriteString("set_option linter.unusedVariables false\n")
	b.WriteString("namespace ArtVerif.Gen.NodeOps\nopen ArtVerif ArtVerif.GoNode\nvariable {C : Type}\n\n")
	b.WriteString("/-- fuel handed to every loop: no loop of node.go runs more than 256 times -/\ndef loopFuel : Nat := 300\n\n")
	// pool index → the static type each Get is asserted to / each Put is handed (recorded as comments above); the
	// numeric tags of the four classes:
	var tags []string
	for _, cls := range []string{"node4", "node16", "node48", "node256"} {
		k := w.pkg.Scope().Lookup(classTag[cls]).(*types.Const)
		tags = append(tags, fmt.Sprintf("(%q, %s)", cls, k.Val().ExactString()))
	}
	sort.Strings(tags)
	b.WriteString("def classTags : List (String × Nat) := [" + strings.Join(tags, ", ") + "]\n\n")
	order := []struct{ recv, name string }{
		{"node4", "clear"}, {"node16", "clear"}, {"node48", "clear"}, {"node256", "clear"},
		{"node256", "addChild"}, {"node48", "addChild"}, {"node16", "addChild"}, {"node4", "addChild"},
		{"node4", "deleteChild"}, {"node16", "deleteChild"}, {"node48", "deleteChild"}, {"node256", "deleteChild"},
		{"nodeRef", "findChild"}, {"nodeRef", "addChild"}, {"nodeRef", "deleteChild"},
	}
	for _, m := range order {
		b.WriteString(w.genNodeMethod(m.recv, m.name) + "\n")
	}
	b.WriteString("end ArtVerif.Gen.NodeOps\n")
	return b.String()
}

// genSearchStep: the generated trees' Search inlines findChild: `b := keyS[depth]; switch n.tag { case nodeKind4: … if
// i := searchNode4(n4.keys, b); i != -1 && i < int(n4.childrenLen) { n = n4.children[i]; depth++; continue } … }; break`.
// The switch becomes `search_find (tag) (nd) (b) : Option (Option C)` – the child the descent continues with, `none`
// (inside the monad's value) when the switch falls through to the `break`.
func (w *world) genSearchStep(recv string) string {
	fd := w.findMethod("Search", recv)
	c := &nctx{w: w, fname: "search_find_" + strings.TrimSuffix(recv, "SortedTree"), env: map[types.Object]*nvar{}, used: map[string]int{}, viewOf: map[*nvar]*nvar{}}
	var sw *ast.SwitchStmt
	var nObj types.Object
	ast.Inspect(fd.Body, func(x ast.Node) bool {
		if s, ok := x.(*ast.SwitchStmt); ok && sw == nil && s.Tag != nil {
			if sel, ok := unparen(s.Tag).(*ast.SelectorExpr); ok && sel.Sel.Name == "tag" {
				if id, ok := unparen(sel.X).(*ast.Ident); ok && w.isNamed(w.info.TypeOf(id), "nodeRef") {
					sw, nObj = s, w.info.Uses[id]
				}
			}
		}
		return true
	})
	if sw == nil {
		// Search that calls (*nodeRef).findChild instead of inlining it: the lookup IS node.go's findChild
		calls := false
		ast.Inspect(fd.Body, func(x ast.Node) bool {
			if call, ok := x.(*ast.CallExpr); ok {
				if sel, ok := unparen(call.Fun).(*ast.SelectorExpr); ok && sel.Sel.Name == "findChild" && len(call.Args) == 1 {
					calls = true
				}
			}
			return true
		})
		if !calls {
			w.failAt(fd.Pos(), "trees.go translator: %s.Search: neither a `switch n.tag` nor a call of findChild found", recv)
		}
		return strings.ReplaceAll(w.genNodeMethod("nodeRef", "findChild"), "nodeRef_findChild", c.fname)
	}
	c.stepRef, c.refObj, c.dispatch = nObj, nObj, true
	c.used["tag"], c.used["nd"], c.used["E"], c.used["fuel"], c.used["loopFuel"] = 1, 1, 1, 1, 1
	// the probe byte: the only free local of the switch
	var params []string
	seen := map[types.Object]bool{}
	ast.Inspect(sw.Body, func(x ast.Node) bool {
		if id, ok := x.(*ast.Ident); ok {
			obj := w.info.Uses[id]
			if v, ok := obj.(*types.Var); ok && !seen[obj] && obj != nObj && v.Pos() < sw.Pos() && v.Pos() > fd.Body.Pos() && !v.IsField() {
				seen[obj] = true
				if b, ok := v.Type().Underlying().(*types.Basic); ok && b.Kind() == types.Uint8 {
					nv := c.declare(obj, "u8")
					params = append(params, fmt.Sprintf("(%s : UInt8)", nv.lean))
				} else if b, ok := v.Type().Underlying().(*types.Basic); ok && b.Kind() == types.Int {
					// `depth` is only incremented after the step
				} else {
					w.failAt(id.Pos(), "trees.go translator: the switch of Search reads %s of type %s", id.Name, v.Type())
				}
			}
		}
		return true
	})
	code := c.switchStmt(sw, func() string { return "pure none\n" })
	var b strings.Builder
	for _, l := range c.loops {
		b.WriteString(l + "\n")
	}
	fmt.Fprintf(&b, "def %s (E : Env C) (tag : Nat) (nd : Img C) %s : Option (Option C) := do\n%s", c.fname, strings.Join(params, " "), indentN(code, "  "))
	return b.String()
}

func genSearchOps(w *world) string {
	var b strings.Builder
	b.WriteString("-- GENERATED by tools/extract from /repo/trees.go — do not edit.\n")
	b.WriteString("import ArtVerif.Model.GoNode\n")
	b.WriteString("set_option linter.unusedVariables false\n")
	b.WriteString("namespace ArtVerif.Gen.SearchOps\nopen ArtVerif ArtVerif.GoNode\nvariable {C : Type}\n\n")
	b.WriteString("-- the child lookup inlined in Search of the five generated trees and of the collation tree\n")
	for _, recv := range []string{"alphaSortedTree", "unsignedSortedTree", "signedSortedTree", "floatSortedTree", "compoundSortedTree", "collationSortedTree"} {
		b.WriteString(w.genSearchStep(recv) + "\n")
	}
	b.WriteString("end ArtVerif.Gen.SearchOps\n")
	return b.String()
}

func genWalkOps(w *world) string {
	var b strings.Builder
	b.WriteString("-- GENERATED by tools/extract from /repo/tree.go — do not edit.\n")
	b.WriteString("import ArtVerif.Model.GoNode\n")
	b.WriteString("set_option linter.unusedVariables false\n")
	b.WriteString("namespace ArtVerif.Gen.WalkOps\nopen ArtVerif ArtVerif.GoNode\nvariable {C : Type}\n\n")
	b.WriteString("def loopFuel : Nat := 300\n\n")
	b.WriteString("-- tree.go: one step of minimum() / maximum() on an inner node\n")
	b.WriteString(w.genWalkStep("minimum") + "\n")
	b.WriteString(w.genWalkStep("maximum") + "\n")
	b.WriteString("end ArtVerif.Gen.WalkOps\n")
	return b.String()
}
