// Command extract regenerates the Lean 4 files under ArtVerif/Gen/ from the
// Go sources of the go-art repository: Node4.lean and Consts.lean
// (translations) and the fact tables Clear.lean, Casts.lean, Effects.lean,
// Layout.lean, Template.lean.
//
//	extract -repo /repo -out /verif/lean/ArtVerif/Gen
//
// Node4.lean is a syntax-directed translation of every declaration in
// <repo>/node4.go (driven by go/ast + go/types; no function body is
// hard-coded).  Consts.lean holds the node capacities from the const block of
// <repo>/node.go and the grow/shrink thresholds read off the deleteChild
// methods.  Any construct outside the supported fragment is a hard error
// (exit status 2): nothing is ever defaulted silently.
//
// The fact tables (pkg.go, gen_clear.go, gen_casts.go, gen_effects.go,
// gen_layout.go, gen_template.go) are computed from the whole package as
// loaded by go/packages (no build tags, no tests, linux/amd64), again with
// hard errors naming file:line for anything that cannot be classified.
//
// For Node4/Consts type checking is done offline on node4.go + node.go only: stdlib imports
// are resolved from GOROOT source (importer "source"); errors located in
// node.go (identifiers declared in files we do not load) are tolerated,
// errors located in node4.go are fatal.
package main

import (
	"bytes"
	"flag"
	"fmt"
	"go/ast"
	"go/importer"
	"go/parser"
	"go/token"
	"go/types"
	"os"
	"path/filepath"
)

// failure is raised (via panic) for every unsupported construct or missing
// datum and turned into "exit 2" by main.
type failure struct{ msg string }

type loaded struct {
	fset      *token.FileSet
	info      *types.Info
	pkg       *types.Package
	node4     *ast.File
	node      *ast.File
	node4Path string
	nodePath  string
}

func failf(format string, args ...any) {
	panic(failure{fmt.Sprintf(format, args...)})
}

func (l *loaded) failAt(pos token.Pos, format string, args ...any) {
	panic(failure{fmt.Sprintf("%s: %s", l.fset.Position(pos), fmt.Sprintf(format, args...))})
}

func load(repo string) *loaded {
	l := &loaded{fset: token.NewFileSet()}
	l.node4Path = filepath.Join(repo, "node4.go")
	l.nodePath = filepath.Join(repo, "node.go")
	var err error
	if l.node4, err = parser.ParseFile(l.fset, l.node4Path, nil, parser.SkipObjectResolution); err != nil {
		failf("parse: %v", err)
	}
	if l.node, err = parser.ParseFile(l.fset, l.nodePath, nil, parser.SkipObjectResolution); err != nil {
		failf("parse: %v", err)
	}
	l.info = &types.Info{
		Types: map[ast.Expr]types.TypeAndValue{},
		Defs:  map[*ast.Ident]types.Object{},
		Uses:  map[*ast.Ident]types.Object{},
	}
	var fatal []error
	conf := types.Config{
		Importer: importer.ForCompiler(l.fset, "source", nil),
		Sizes:    types.SizesFor("gc", "amd64"),
		Error: func(err error) {
			// node.go refers to declarations in files that are not loaded
			// (node16, nodeRef, pools, ...): tolerated.  node4.go must be
			// self-contained up to node.go, otherwise the types we translate
			// from would be unreliable.
			if te, ok := err.(types.Error); ok && te.Fset.Position(te.Pos).Filename == l.nodePath {
				return
			}
			fatal = append(fatal, err)
		},
	}
	l.pkg, _ = conf.Check(l.node4.Name.Name, l.fset, []*ast.File{l.node4, l.node}, l.info)
	if len(fatal) > 0 {
		msg := "type errors outside node.go:"
		for _, e := range fatal {
			msg += "\n  " + e.Error()
		}
		failf("%s", msg)
	}
	if l.pkg == nil {
		failf("type checker returned no package")
	}
	return l
}

func emit(path string, content []byte) {
	old, err := os.ReadFile(path)
	if err == nil && bytes.Equal(old, content) {
		fmt.Printf("unchanged %s\n", path)
		return
	}
	if err := os.WriteFile(path, content, 0o644); err != nil {
		failf("%v", err)
	}
	fmt.Printf("wrote %s\n", path)
}

func run(repo, out string) {
	l := load(repo)
	// Translate everything before touching the output directory, so that a
	// failure never leaves a half-updated pair of files behind.
	node4 := genNode4(l)
	consts := genConsts(l)
	w := loadWorld(repo)
	files := []struct{ name, content string }{
		{"Node4.lean", node4},
		{"Consts.lean", consts},
		{"Clear.lean", genClear(w)},
		{"Casts.lean", genCasts(w)},
		{"Effects.lean", genEffects(w)},
		{"Layout.lean", genLayout(w)},
		{"Template.lean", genTemplate(w)},
	}
	if err := os.MkdirAll(out, 0o755); err != nil {
		failf("%v", err)
	}
	for _, f := range files {
		emit(filepath.Join(out, f.name), []byte(f.content))
	}
}

func main() {
	repo := flag.String("repo", "/repo", "go-art working tree to translate from")
	out := flag.String("out", "", "directory receiving the generated .lean files")
	flag.Parse()
	if *out == "" || flag.NArg() != 0 {
		fmt.Fprintln(os.Stderr, "usage: extract -repo <go-art tree> -out <dir>")
		os.Exit(2)
	}
	defer func() {
		if r := recover(); r != nil {
			if f, ok := r.(failure); ok {
				fmt.Fprintf(os.Stderr, "extract: error: %s\n", f.msg)
				os.Exit(2)
			}
			panic(r)
		}
	}()
	run(*repo, *out)
}
