package main

// Whole-package loading (go/packages, offline) and the helpers shared by the
// fact-table generators (gen_clear.go, gen_casts.go, gen_effects.go,
// gen_layout.go, gen_template.go).
//
// Only the files compiled WITHOUT the build tag `verif` and without tests are
// analysed: go/packages is run without -tags and without Tests, for
// GOOS=linux GOARCH=amd64 (so node16.go with the assembly-backed, body-less
// declarations is part of the package and node16_other.go is not).

import (
	"bytes"
	"fmt"
	"go/ast"
	"go/printer"
	"go/scanner"
	"go/token"
	"go/types"
	"os"
	"path/filepath"
	"regexp"
	"sort"
	"strings"

	"golang.org/x/tools/go/packages"
)

type world struct {
	repo string
	fset *token.FileSet
	art  *packages.Package // package art (<repo>)
	cmd  *packages.Package // package main (<repo>/cmd/go-art)
	info *types.Info       // art.TypesInfo
	pkg  *types.Package    // art.Types

	units []*unit
}

// unit is a named function or method of package art, or the pseudo function
// "var.<name>" standing for the initialiser of a package-level variable that
// contains calls or function literals.  Function literals are never units:
// they are attributed to the unit they are written in.
type unit struct {
	name string
	decl *ast.FuncDecl // nil for var.<name>
	body ast.Node      // nil for functions declared without a body (assembly)
	recv types.Object  // receiver variable, if named
}

func (w *world) failAt(pos token.Pos, format string, args ...any) {
	panic(failure{fmt.Sprintf("%s: %s", w.fset.Position(pos), fmt.Sprintf(format, args...))})
}

func loadWorld(repo string) *world {
	abs, err := filepath.Abs(repo)
	if err != nil {
		failf("%v", err)
	}
	w := &world{repo: abs, fset: token.NewFileSet()}
	cfg := &packages.Config{
		Mode: packages.NeedName | packages.NeedFiles | packages.NeedCompiledGoFiles |
			packages.NeedSyntax | packages.NeedTypes | packages.NeedTypesInfo |
			packages.NeedTypesSizes | packages.NeedImports | packages.NeedDeps,
		Dir:  abs,
		Fset: w.fset,
		// never let the go command rewrite <repo>/go.mod or go.sum
		BuildFlags: []string{"-mod=readonly"},
		Env:        append(os.Environ(), "GOOS=linux", "GOARCH=amd64", "CGO_ENABLED=0", "GOWORK=off"),
		Tests:      false,
	}
	pkgs, err := packages.Load(cfg, ".", "./cmd/go-art")
	if err != nil {
		failf("go/packages: %v", err)
	}
	for _, p := range pkgs {
		for _, e := range p.Errors {
			failf("go/packages: %s: %s", p.ID, e)
		}
		switch {
		case p.Name == "art":
			w.art = p
		case p.Name == "main" && strings.HasSuffix(p.PkgPath, "/cmd/go-art"):
			w.cmd = p
		}
	}
	if w.art == nil || w.cmd == nil {
		failf("go/packages: expected package art and package main (cmd/go-art) under %s", abs)
	}
	w.info, w.pkg = w.art.TypesInfo, w.art.Types
	if len(w.art.Syntax) != len(w.art.CompiledGoFiles) {
		failf("go/packages: %d syntax trees for %d files", len(w.art.Syntax), len(w.art.CompiledGoFiles))
	}
	for i, f := range w.art.Syntax {
		name := w.art.CompiledGoFiles[i]
		if strings.HasSuffix(name, "_test.go") {
			failf("%s: test file in the analysed package", name)
		}
		// belt and braces: a file constrained on the tag `verif` must never be
		// part of the analysed package
		for _, cg := range f.Comments {
			if cg.Pos() >= f.Package {
				break
			}
			for _, c := range cg.List {
				if strings.HasPrefix(c.Text, "//go:build") && regexp.MustCompile(`\bverif\b`).MatchString(c.Text) {
					w.failAt(c.Pos(), "file with build constraint on `verif` in the analysed package")
				}
			}
		}
	}
	w.collectUnits()
	return w
}

// ---------------------------------------------------------------------------
// Units
// ---------------------------------------------------------------------------

// recvBase returns the receiver's base type name without `*` and type args.
func (w *world) recvBase(fd *ast.FuncDecl) string {
	t := fd.Recv.List[0].Type
	for {
		switch x := t.(type) {
		case *ast.ParenExpr:
			t = x.X
			continue
		case *ast.StarExpr:
			t = x.X
			continue
		case *ast.IndexExpr:
			t = x.X
			continue
		case *ast.IndexListExpr:
			t = x.X
			continue
		case *ast.Ident:
			return x.Name
		}
		w.failAt(fd.Pos(), "cannot name the receiver type of method %s", fd.Name.Name)
	}
}

func (w *world) collectUnits() {
	for _, f := range w.art.Syntax {
		for _, d := range f.Decls {
			switch d := d.(type) {
			case *ast.FuncDecl:
				u := &unit{name: d.Name.Name, decl: d}
				if d.Recv != nil {
					if len(d.Recv.List) != 1 {
						w.failAt(d.Pos(), "method with %d receivers", len(d.Recv.List))
					}
					u.name = w.recvBase(d) + "." + d.Name.Name
					if ns := d.Recv.List[0].Names; len(ns) == 1 && ns[0].Name != "_" {
						u.recv = w.info.Defs[ns[0]]
					}
				}
				if d.Body != nil {
					u.body = d.Body
				}
				w.units = append(w.units, u)
			case *ast.GenDecl:
				if d.Tok != token.VAR {
					continue
				}
				for _, s := range d.Specs {
					vs := s.(*ast.ValueSpec)
					active := false
					for _, v := range vs.Values {
						ast.Inspect(v, func(n ast.Node) bool {
							switch n := n.(type) {
							case *ast.FuncLit:
								active = true
							case *ast.CallExpr:
								if tv, ok := w.info.Types[n.Fun]; !ok || !tv.IsType() {
									active = true
								}
							}
							return true
						})
					}
					if active {
						w.units = append(w.units, &unit{name: "var." + vs.Names[0].Name, body: vs})
					}
				}
			}
		}
	}
}

// ---------------------------------------------------------------------------
// AST walking with an ancestor stack
// ---------------------------------------------------------------------------

// walk calls fn(n, stack) for every node below (and including) root, where
// stack holds the ancestors of n from root downwards (n excluded).
func walk(root ast.Node, fn func(n ast.Node, stack []ast.Node)) {
	var stack []ast.Node
	ast.Inspect(root, func(n ast.Node) bool {
		if n == nil {
			stack = stack[:len(stack)-1]
			return false
		}
		fn(n, stack)
		stack = append(stack, n)
		return true
	})
}

// stmtList returns the statement list of a block-like node.
func stmtList(n ast.Node) ([]ast.Stmt, bool) {
	switch b := n.(type) {
	case *ast.BlockStmt:
		return b.List, true
	case *ast.CaseClause:
		return b.Body, true
	case *ast.CommClause:
		return b.Body, true
	}
	return nil, false
}

func indexOfStmt(list []ast.Stmt, n ast.Node) int {
	for i, s := range list {
		if ast.Node(s) == n {
			return i
		}
	}
	return -1
}

// rootIdent strips selectors, indexing, slicing, dereferences and parentheses.
func rootIdent(e ast.Expr) *ast.Ident {
	for {
		switch x := e.(type) {
		case *ast.Ident:
			return x
		case *ast.ParenExpr:
			e = x.X
		case *ast.SelectorExpr:
			e = x.X
		case *ast.IndexExpr:
			e = x.X
		case *ast.SliceExpr:
			e = x.X
		case *ast.StarExpr:
			e = x.X
		default:
			return nil
		}
	}
}

// ---------------------------------------------------------------------------
// Rendering
// ---------------------------------------------------------------------------

// text is the source text of a node as printed by go/printer, with every run
// of white space (line breaks, indentation, alignment) outside string and
// character literals collapsed to one space.
func (w *world) text(n ast.Node) string {
	var b bytes.Buffer
	if err := printer.Fprint(&b, w.fset, n); err != nil {
		w.failAt(n.Pos(), "cannot print node: %v", err)
	}
	src := b.Bytes()
	// literal spans, found with go/scanner (a statement or expression is a
	// valid token sequence)
	type span struct{ lo, hi int }
	var lits []span
	fs := token.NewFileSet()
	file := fs.AddFile("", fs.Base(), len(src))
	var sc scanner.Scanner
	sc.Init(file, src, nil, 0)
	for {
		pos, tok, lit := sc.Scan()
		if tok == token.EOF {
			break
		}
		if tok == token.STRING || tok == token.CHAR {
			lo := file.Offset(pos)
			lits = append(lits, span{lo, lo + len(lit)})
		}
	}
	var out strings.Builder
	space := false
	li := 0
	for i := 0; i < len(src); i++ {
		for li < len(lits) && lits[li].hi <= i {
			li++
		}
		c := src[i]
		inLit := li < len(lits) && lits[li].lo <= i && i < lits[li].hi
		if !inLit && (c == ' ' || c == '\t' || c == '\n' || c == '\r' || c == '\v' || c == '\f') {
			space = true
			continue
		}
		if space && out.Len() > 0 {
			out.WriteByte(' ')
		}
		space = false
		out.WriteByte(c)
	}
	return out.String()
}

// qual renders package art's own names unqualified, everything else by
// package name ("unsafe.Pointer", "collate.Buffer").
func (w *world) qual(p *types.Package) string {
	if p == w.pkg {
		return ""
	}
	return p.Name()
}

func (w *world) typeStr(t types.Type) string { return types.TypeString(t, w.qual) }

func leanStr(s string) string {
	var b strings.Builder
	b.WriteByte('"')
	for _, r := range s {
		switch {
		case r == '\\':
			b.WriteString(`\\`)
		case r == '"':
			b.WriteString(`\"`)
		case r == '\n':
			b.WriteString(`\n`)
		case r == '\t':
			b.WriteString(`\t`)
		case r == '\r':
			b.WriteString(`\r`)
		case r < 0x20 || r == 0x7f:
			fmt.Fprintf(&b, `\x%02x`, r)
		default:
			b.WriteRune(r)
		}
	}
	b.WriteByte('"')
	return b.String()
}

func leanBool(v bool) string {
	if v {
		return "true"
	}
	return "false"
}

func leanStrList(xs []string) string {
	q := make([]string, len(xs))
	for i, x := range xs {
		q[i] = leanStr(x)
	}
	return "[" + strings.Join(q, ", ") + "]"
}

func tuple(parts ...string) string { return "(" + strings.Join(parts, ", ") + ")" }

// leanFile accumulates one generated file.
type leanFile struct{ b strings.Builder }

func newLeanFile(about string) *leanFile {
	f := &leanFile{}
	f.b.WriteString("-- GENERATED by tools/extract from /repo — do not edit.\n")
	if about != "" {
		for _, l := range strings.Split(strings.TrimRight(about, "\n"), "\n") {
			f.b.WriteString("-- " + l + "\n")
		}
	}
	f.b.WriteString("namespace ArtVerif.Gen\n")
	return f
}

func (f *leanFile) comment(s string) {
	for _, l := range strings.Split(strings.TrimRight(s, "\n"), "\n") {
		f.b.WriteString("-- " + l + "\n")
	}
}

// elem is one list element with an optional trailing Lean comment.
type elem struct{ s, c string }

// list emits `def name : typ := [` + one element per line + `]`.
func (f *leanFile) list(doc, name, typ string, elems []string) {
	es := make([]elem, len(elems))
	for i, e := range elems {
		es[i] = elem{s: e}
	}
	f.listC(doc, name, typ, es)
}

func (f *leanFile) listC(doc, name, typ string, elems []elem) {
	f.b.WriteString("\n")
	if doc != "" {
		f.comment(doc)
	}
	if len(elems) == 0 {
		fmt.Fprintf(&f.b, "def %s : %s := []\n", name, typ)
		return
	}
	fmt.Fprintf(&f.b, "def %s : %s := [\n", name, typ)
	f.b.WriteString(joinElems(elems, "  "))
	f.b.WriteString("]\n")
}

// joinElems renders elements one per line; the trailing comment of an element
// is placed behind the separating comma.
func joinElems(elems []elem, indent string) string {
	var b strings.Builder
	for i, e := range elems {
		sep := ","
		if i == len(elems)-1 {
			sep = ""
		}
		b.WriteString(indent + e.s + sep)
		if e.c != "" {
			b.WriteString("  -- " + strings.ReplaceAll(e.c, "\n", " "))
		}
		b.WriteString("\n")
	}
	return b.String()
}

func (f *leanFile) done() string {
	f.b.WriteString("\nend ArtVerif.Gen\n")
	return f.b.String()
}

// ---------------------------------------------------------------------------
// Misc type helpers
// ---------------------------------------------------------------------------

func (w *world) lookupNamed(name string) *types.Named {
	obj := w.pkg.Scope().Lookup(name)
	tn, ok := obj.(*types.TypeName)
	if !ok {
		failf("%s: type %s not found in package %s", w.repo, name, w.pkg.Name())
	}
	n, ok := tn.Type().(*types.Named)
	if !ok {
		w.failAt(tn.Pos(), "%s is not a defined type", name)
	}
	return n
}

func (w *world) isNamed(t types.Type, name string) bool {
	n, ok := types.Unalias(t).(*types.Named)
	return ok && n.Obj().Pkg() == w.pkg && n.Obj().Name() == name
}

func isUnsafePointer(t types.Type) bool {
	b, ok := types.Unalias(t).(*types.Basic)
	return ok && b.Kind() == types.UnsafePointer
}

func isUintptr(t types.Type) bool {
	if t == nil {
		return false
	}
	b, ok := t.Underlying().(*types.Basic)
	return ok && b.Kind() == types.Uintptr
}

// kindConstName returns the name of the nodeKind constant an expression
// denotes ("" if it is not an identifier bound to such a constant).
func (w *world) kindConstName(e ast.Expr) string {
	id, ok := unparen(e).(*ast.Ident)
	if !ok {
		return ""
	}
	c, ok := w.info.Uses[id].(*types.Const)
	if !ok || !w.isNamed(c.Type(), "nodeKind") {
		return ""
	}
	return c.Name()
}

func sortedByPos[T any](xs []T, pos func(T) token.Pos) {
	sort.SliceStable(xs, func(i, j int) bool { return pos(xs[i]) < pos(xs[j]) })
}
