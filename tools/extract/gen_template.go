package main

// Gen/Template.lean: the bytes of cmd/go-art/tree.tmpl and trees.go and the
// template configurations of cmd/go-art/main.go.

import (
	"fmt"
	"go/ast"
	"go/constant"
	"go/types"
	"os"
	"path/filepath"
	"strings"
)

// byteChunk is the number of bytes per auxiliary definition: Lean's
// elaborator runs out of recursion depth on list literals with thousands of
// elements, so a byte list is emitted as `name_0 ++ name_1 ++ …` (via
// List.flatten) over literals of at most byteChunk elements.
const byteChunk = 512

func byteList(f *leanFile, doc, name string, data []byte) {
	f.b.WriteString("\n")
	f.comment(doc)
	var parts []string
	for lo := 0; lo < len(data) || lo == 0; lo += byteChunk {
		hi := min(lo+byteChunk, len(data))
		part := fmt.Sprintf("%s_%d", name, lo/byteChunk)
		parts = append(parts, part)
		fmt.Fprintf(&f.b, "def %s : List Nat := [", part)
		for i, c := range data[lo:hi] {
			if i%32 == 0 {
				f.b.WriteString("\n ")
			}
			fmt.Fprintf(&f.b, " %d", c)
			if lo+i != hi-1 {
				f.b.WriteByte(',')
			}
		}
		f.b.WriteString("\n]\n")
		if hi == len(data) {
			break
		}
	}
	fmt.Fprintf(&f.b, "def %s : List Nat := List.flatten [", name)
	for i, p := range parts {
		if i%8 == 0 {
			f.b.WriteString("\n ")
		}
		f.b.WriteString(" " + p)
		if i != len(parts)-1 {
			f.b.WriteByte(',')
		}
	}
	f.b.WriteString("\n]\n")
}

func genTemplate(w *world) string {
	f := newLeanFile("cmd/go-art/tree.tmpl, trees.go (bytes) and the []Tree configurations of cmd/go-art/main.go.")

	read := func(rel string) []byte {
		p := filepath.Join(w.repo, rel)
		data, err := os.ReadFile(p)
		if err != nil {
			failf("%v", err)
		}
		return data
	}
	tmpl := read(filepath.Join("cmd", "go-art", "tree.tmpl"))
	trees := read("trees.go")
	byteList(f, fmt.Sprintf("bytes of cmd/go-art/tree.tmpl (%d)", len(tmpl)), "treeTmplBytes", tmpl)
	byteList(f, fmt.Sprintf("bytes of trees.go (%d)", len(trees)), "treesGoBytes", trees)

	// ---- treeConfigs
	info := w.cmd.TypesInfo
	tn, ok := w.cmd.Types.Scope().Lookup("Tree").(*types.TypeName)
	if !ok {
		failf("%s: type Tree not found in cmd/go-art", w.repo)
	}
	st, ok := tn.Type().Underlying().(*types.Struct)
	if !ok {
		w.failAt(tn.Pos(), "cmd/go-art: Tree is not a struct")
	}
	var lits []*ast.CompositeLit
	for _, file := range w.cmd.Syntax {
		ast.Inspect(file, func(n ast.Node) bool {
			cl, ok := n.(*ast.CompositeLit)
			if !ok {
				return true
			}
			if sl, ok := info.TypeOf(cl).Underlying().(*types.Slice); ok {
				if named, ok := types.Unalias(sl.Elem()).(*types.Named); ok && named.Obj() == tn {
					lits = append(lits, cl)
				}
			}
			return true
		})
	}
	if len(lits) != 1 {
		w.failAt(tn.Pos(), "cmd/go-art: expected exactly one []Tree{…} literal, found %d", len(lits))
	}
	render := func(e ast.Expr, ft types.Type) string {
		tv := info.Types[e]
		if tv.Value == nil {
			w.failAt(e.Pos(), "Tree field value %s is not a constant", w.text(e))
		}
		switch tv.Value.Kind() {
		case constant.String:
			return constant.StringVal(tv.Value)
		case constant.Bool:
			if constant.BoolVal(tv.Value) {
				return "true"
			}
			return "false"
		}
		w.failAt(e.Pos(), "Tree field value %s is neither a string nor a bool constant", w.text(e))
		panic("unreachable")
	}
	zero := func(fl *types.Var) string {
		if b, ok := fl.Type().Underlying().(*types.Basic); ok {
			switch {
			case b.Info()&types.IsString != 0:
				return ""
			case b.Info()&types.IsBoolean != 0:
				return "false"
			}
		}
		w.failAt(fl.Pos(), "Tree field %s has type %s: only string and bool fields are supported", fl.Name(), fl.Type())
		panic("unreachable")
	}
	var configs []string
	for _, el := range lits[0].Elts {
		if kv, ok := el.(*ast.KeyValueExpr); ok {
			w.failAt(kv.Pos(), "indexed element in the []Tree literal is not supported")
		}
		cl, ok := unparen(el).(*ast.CompositeLit)
		if !ok {
			w.failAt(el.Pos(), "element of the []Tree literal is not a composite literal")
		}
		vals := map[string]string{}
		for i, fe := range cl.Elts {
			if kv, ok := fe.(*ast.KeyValueExpr); ok {
				name := kv.Key.(*ast.Ident).Name
				var fl *types.Var
				for j := 0; j < st.NumFields(); j++ {
					if st.Field(j).Name() == name {
						fl = st.Field(j)
					}
				}
				if fl == nil {
					w.failAt(kv.Pos(), "unknown Tree field %s", name)
				}
				vals[name] = render(kv.Value, fl.Type())
			} else {
				if i >= st.NumFields() {
					w.failAt(fe.Pos(), "too many values in Tree literal")
				}
				vals[st.Field(i).Name()] = render(fe, st.Field(i).Type())
			}
		}
		var parts []string
		for j := 0; j < st.NumFields(); j++ {
			fl := st.Field(j)
			v, ok := vals[fl.Name()]
			if !ok {
				v = zero(fl)
			}
			parts = append(parts, tuple(leanStr(fl.Name()), leanStr(v)))
		}
		configs = append(configs, "["+strings.Join(parts, ", ")+"]")
	}
	f.list("one entry per element of `trees := []Tree{…}`: every field of `type Tree struct` in declaration order as\n"+
		"(field, value): strings without quotes, bools as \"true\"/\"false\", omitted fields with their zero value",
		"treeConfigs", "List (List (String × String))", configs)
	return f.done()
}
