package main

// Gen/Clear.lean: struct fields, clear() coverage, pool allocation types and
// every nodePools Get/Put site.

import (
	"fmt"
	"go/ast"
	"go/constant"
	"go/token"
	"go/types"
)

// structOf returns the struct type of a (non-generic) defined type of package art.
func (w *world) structOf(n *types.Named) (*types.Struct, bool) {
	s, ok := n.Underlying().(*types.Struct)
	return s, ok
}

// clearMethods returns, in source order, every method declaration named
// `clear`; each must have the shape `func (x *S) clear()`.
func (w *world) clearMethods() []*unit {
	var out []*unit
	for _, u := range w.units {
		if u.decl == nil || u.decl.Recv == nil || u.decl.Name.Name != "clear" {
			continue
		}
		fd := u.decl
		star, ok := fd.Recv.List[0].Type.(*ast.StarExpr)
		if !ok {
			w.failAt(fd.Pos(), "clear() with a non-pointer receiver")
		}
		if _, ok := star.X.(*ast.Ident); !ok {
			w.failAt(fd.Pos(), "clear() on a generic receiver is not supported")
		}
		if u.recv == nil {
			w.failAt(fd.Pos(), "clear() without a named receiver")
		}
		if fd.Type.Params.NumFields() != 0 || fd.Type.Results.NumFields() != 0 {
			w.failAt(fd.Pos(), "clear() must take no parameters and return nothing")
		}
		if fd.Body == nil {
			w.failAt(fd.Pos(), "clear() without a body")
		}
		out = append(out, u)
	}
	return out
}

// topField checks that e is `<recv>.f` with f a field declared directly in
// the receiver's struct (not promoted) and returns f.
func (w *world) topField(u *unit, e ast.Expr) string {
	sel, ok := unparen(e).(*ast.SelectorExpr)
	if !ok {
		w.failAt(e.Pos(), "clear(): expected <receiver>.<field>, found %s", w.text(e))
	}
	id, ok := unparen(sel.X).(*ast.Ident)
	if !ok || w.info.Uses[id] != u.recv {
		w.failAt(e.Pos(), "clear(): %s is not a field of the receiver", w.text(e))
	}
	s := w.info.Selections[sel]
	if s == nil || s.Kind() != types.FieldVal {
		w.failAt(e.Pos(), "clear(): %s is not a field selection", w.text(e))
	}
	if len(s.Index()) != 1 {
		w.failAt(e.Pos(), "clear(): %s is a promoted field, not a top-level field of %s", w.text(e), u.name)
	}
	return sel.Sel.Name
}

// isZeroValue recognises T{} (of exactly the target's type), nil and zero
// constants (0, "", false).
func (w *world) isZeroValue(rhs ast.Expr, target types.Type) bool {
	rhs = unparen(rhs)
	if cl, ok := rhs.(*ast.CompositeLit); ok {
		return len(cl.Elts) == 0 && types.Identical(w.info.TypeOf(cl), target)
	}
	tv, ok := w.info.Types[rhs]
	if !ok {
		return false
	}
	if tv.IsNil() {
		return true
	}
	if tv.Value == nil {
		return false
	}
	switch tv.Value.Kind() {
	case constant.Int, constant.Float, constant.Complex:
		return constant.Sign(tv.Value) == 0
	case constant.String:
		return constant.StringVal(tv.Value) == ""
	case constant.Bool:
		return !constant.BoolVal(tv.Value)
	}
	return false
}

func (w *world) clearedFieldsOf(u *unit) []string {
	var fields []string
	add := func(f string) {
		for _, g := range fields {
			if g == f {
				return
			}
		}
		fields = append(fields, f)
	}
	for _, st := range u.decl.Body.List {
		switch st := st.(type) {
		case *ast.ExprStmt:
			call, ok := st.X.(*ast.CallExpr)
			if !ok {
				w.failAt(st.Pos(), "clear(): unsupported statement %s", w.text(st))
			}
			fn, ok := unparen(call.Fun).(*ast.Ident)
			if !ok {
				w.failAt(st.Pos(), "clear(): unsupported call %s", w.text(st))
			}
			if b, ok := w.info.Uses[fn].(*types.Builtin); !ok || b.Name() != "clear" || len(call.Args) != 1 {
				w.failAt(st.Pos(), "clear(): unsupported call %s", w.text(st))
			}
			arg := unparen(call.Args[0])
			if sl, ok := arg.(*ast.SliceExpr); ok {
				if sl.Low != nil || sl.High != nil || sl.Max != nil {
					w.failAt(st.Pos(), "clear(): partial slice %s does not reset the whole field", w.text(arg))
				}
				arg = sl.X
			}
			add(w.topField(u, arg))
		case *ast.AssignStmt:
			if st.Tok != token.ASSIGN || len(st.Lhs) != 1 || len(st.Rhs) != 1 {
				w.failAt(st.Pos(), "clear(): unsupported assignment %s", w.text(st))
			}
			f := w.topField(u, st.Lhs[0])
			if !w.isZeroValue(st.Rhs[0], w.info.TypeOf(st.Lhs[0])) {
				w.failAt(st.Pos(), "clear(): %s does not assign a zero value", w.text(st))
			}
			add(f)
		default:
			w.failAt(st.Pos(), "clear(): unsupported statement %s", w.text(st))
		}
	}
	return fields
}

// poolVar returns the package-level variable nodePools and its array literal.
func (w *world) poolVar() (*types.Var, *ast.CompositeLit) {
	obj, ok := w.pkg.Scope().Lookup("nodePools").(*types.Var)
	if !ok {
		failf("%s: package-level variable nodePools not found", w.repo)
	}
	for _, f := range w.art.Syntax {
		for _, d := range f.Decls {
			gd, ok := d.(*ast.GenDecl)
			if !ok || gd.Tok != token.VAR {
				continue
			}
			for _, s := range gd.Specs {
				vs := s.(*ast.ValueSpec)
				for i, n := range vs.Names {
					if w.info.Defs[n] != obj {
						continue
					}
					if len(vs.Values) != len(vs.Names) {
						w.failAt(vs.Pos(), "nodePools is not initialised by its own expression")
					}
					cl, ok := unparen(vs.Values[i]).(*ast.CompositeLit)
					if !ok {
						w.failAt(vs.Pos(), "nodePools is not initialised by a composite literal")
					}
					if _, ok := w.info.TypeOf(cl).Underlying().(*types.Array); !ok {
						w.failAt(cl.Pos(), "nodePools is not an array literal")
					}
					return obj, cl
				}
			}
		}
	}
	w.failAt(obj.Pos(), "declaration of nodePools not found")
	panic("unreachable")
}

// poolNewType returns T for a pool element `{New: func() any { return new(T) }}`
// (or `return &T{}`).
func (w *world) poolNewType(e ast.Expr) string {
	cl, ok := unparen(e).(*ast.CompositeLit)
	if !ok {
		w.failAt(e.Pos(), "nodePools element is not a composite literal")
	}
	st, ok := w.info.TypeOf(cl).Underlying().(*types.Struct)
	if !ok {
		w.failAt(e.Pos(), "nodePools element is not a struct literal")
	}
	var newFn ast.Expr
	for i, el := range cl.Elts {
		if kv, ok := el.(*ast.KeyValueExpr); ok {
			if k, ok := kv.Key.(*ast.Ident); ok && k.Name == "New" {
				newFn = kv.Value
			}
		} else if i < st.NumFields() && st.Field(i).Name() == "New" {
			newFn = el
		}
	}
	if newFn == nil {
		w.failAt(e.Pos(), "nodePools element has no New function")
	}
	fl, ok := unparen(newFn).(*ast.FuncLit)
	if !ok {
		w.failAt(newFn.Pos(), "nodePools New is not a function literal")
	}
	if len(fl.Body.List) != 1 {
		w.failAt(fl.Pos(), "nodePools New must consist of one return statement")
	}
	ret, ok := fl.Body.List[0].(*ast.ReturnStmt)
	if !ok || len(ret.Results) != 1 {
		w.failAt(fl.Pos(), "nodePools New must consist of one return statement with one result")
	}
	r := unparen(ret.Results[0])
	switch r := r.(type) {
	case *ast.CallExpr:
		if id, ok := unparen(r.Fun).(*ast.Ident); ok {
			if b, ok := w.info.Uses[id].(*types.Builtin); ok && b.Name() == "new" && len(r.Args) == 1 {
				return w.typeStr(w.info.TypeOf(r.Args[0]))
			}
		}
	case *ast.UnaryExpr:
		if cl, ok := unparen(r.X).(*ast.CompositeLit); ok && r.Op == token.AND && len(cl.Elts) == 0 {
			return w.typeStr(w.info.TypeOf(cl))
		}
	}
	w.failAt(r.Pos(), "nodePools New returns %s: expected new(T) or &T{}", w.text(r))
	panic("unreachable")
}

type poolSite struct {
	fn, op, kind, typ string
	pos               token.Pos
	// Put only
	clearBefore, refAssignBefore bool
}

// poolSites finds every nodePools[K].Get().(*T) and nodePools[K].Put(x); any
// other use of nodePools is an error.
func (w *world) poolSites() []poolSite {
	pools, _ := w.poolVar()
	var sites []poolSite
	for _, u := range w.units {
		if u.body == nil {
			continue
		}
		classified := map[*ast.Ident]bool{}
		walk(u.body, func(n ast.Node, stack []ast.Node) {
			call, ok := n.(*ast.CallExpr)
			if !ok {
				return
			}
			sel, ok := unparen(call.Fun).(*ast.SelectorExpr)
			if !ok {
				return
			}
			ix, ok := unparen(sel.X).(*ast.IndexExpr)
			if !ok {
				return
			}
			id, ok := unparen(ix.X).(*ast.Ident)
			if !ok || w.info.Uses[id] != pools {
				return
			}
			kind := w.kindConstName(ix.Index)
			if kind == "" {
				w.failAt(ix.Index.Pos(), "nodePools index %s is not a nodeKind constant name", w.text(ix.Index))
			}
			s := poolSite{fn: u.name, op: sel.Sel.Name, kind: kind, pos: call.Pos()}
			switch sel.Sel.Name {
			case "Get":
				if len(call.Args) != 0 {
					w.failAt(call.Pos(), "nodePools[..].Get with arguments")
				}
				// the parent (ignoring parentheses) must be a type assertion to *T
				i := len(stack) - 1
				for i >= 0 {
					if _, ok := stack[i].(*ast.ParenExpr); !ok {
						break
					}
					i--
				}
				var ta *ast.TypeAssertExpr
				if i >= 0 {
					ta, _ = stack[i].(*ast.TypeAssertExpr)
				}
				if ta == nil || ta.Type == nil {
					w.failAt(call.Pos(), "nodePools[%s].Get() is not immediately type-asserted", kind)
				}
				pt, ok := w.info.TypeOf(ta.Type).(*types.Pointer)
				if !ok {
					w.failAt(ta.Pos(), "nodePools[%s].Get() asserted to non-pointer type %s", kind, w.text(ta.Type))
				}
				s.typ = w.typeStr(pt.Elem())
			case "Put":
				if len(call.Args) != 1 {
					w.failAt(call.Pos(), "nodePools[..].Put expects one argument")
				}
				pt, ok := types.Unalias(w.info.TypeOf(call.Args[0])).(*types.Pointer)
				if !ok {
					w.failAt(call.Pos(), "nodePools[%s].Put(%s): argument has no static pointer type (%s)",
						kind, w.text(call.Args[0]), w.typeStr(w.info.TypeOf(call.Args[0])))
				}
				s.typ = w.typeStr(pt.Elem())
				s.clearBefore, s.refAssignBefore = w.putContext(call, stack)
			default:
				w.failAt(call.Pos(), "unsupported use nodePools[%s].%s", kind, sel.Sel.Name)
			}
			classified[id] = true
			sites = append(sites, s)
		})
		// every other mention of nodePools inside a function is unclassifiable
		ast.Inspect(u.body, func(n ast.Node) bool {
			if id, ok := n.(*ast.Ident); ok && w.info.Uses[id] == pools && !classified[id] {
				w.failAt(id.Pos(), "use of nodePools that is neither nodePools[K].Get().(*T) nor nodePools[K].Put(x)")
			}
			return true
		})
	}
	return sites
}

// putContext computes, for a Put call:
//   - whether the statement immediately preceding the Put statement in its
//     block is `x.clear()` for the very variable x that is Put;
//   - whether an assignment statement `*r = …` with r of type *nodeRef is an
//     earlier sibling statement of the Put statement in its block or of one of
//     the enclosing statements in their blocks (so it precedes the Put on every
//     path that reaches it without goto).
func (w *world) putContext(call *ast.CallExpr, stack []ast.Node) (clearBefore, refAssign bool) {
	if len(stack) == 0 {
		w.failAt(call.Pos(), "Put is not a statement")
	}
	es, ok := stack[len(stack)-1].(*ast.ExprStmt)
	if !ok {
		w.failAt(call.Pos(), "nodePools[..].Put(..) is not used as a statement")
	}
	argID, _ := unparen(call.Args[0]).(*ast.Ident)
	var child ast.Node = es
	innermost := true
	for i := len(stack) - 2; i >= 0; i-- {
		parent := stack[i]
		if _, ok := parent.(*ast.FuncLit); ok {
			break // statements of the enclosing function do not precede the closure's body
		}
		if list, ok := stmtList(parent); ok {
			idx := indexOfStmt(list, child)
			if idx < 0 {
				w.failAt(call.Pos(), "internal: statement not found in its block")
			}
			if innermost {
				innermost = false
				if idx > 0 && argID != nil {
					if pes, ok := list[idx-1].(*ast.ExprStmt); ok {
						if pc, ok := pes.X.(*ast.CallExpr); ok && len(pc.Args) == 0 {
							if ps, ok := unparen(pc.Fun).(*ast.SelectorExpr); ok && ps.Sel.Name == "clear" {
								if pid, ok := unparen(ps.X).(*ast.Ident); ok && w.info.Uses[pid] != nil &&
									w.info.Uses[pid] == w.info.Uses[argID] {
									if fnObj, ok := w.info.Uses[ps.Sel].(*types.Func); ok && fnObj.Pkg() == w.pkg {
										clearBefore = true
									}
								}
							}
						}
					}
				}
			}
			for _, s := range list[:idx] {
				as, ok := s.(*ast.AssignStmt)
				if !ok || as.Tok != token.ASSIGN {
					continue
				}
				for _, l := range as.Lhs {
					if st, ok := unparen(l).(*ast.StarExpr); ok {
						if id, ok := unparen(st.X).(*ast.Ident); ok {
							if pt, ok := w.info.TypeOf(id).(*types.Pointer); ok && w.isNamed(pt.Elem(), "nodeRef") {
								refAssign = true
							}
						}
					}
				}
			}
		}
		child = parent
	}
	return
}

func genClear(w *world) string {
	f := newLeanFile("Struct fields, clear() coverage, pool allocation types, nodePools Get/Put sites.")

	// --- nodeStructFields: pool-allocated structs, structs with clear(), and
	// the structs they embed; in declaration order.
	want := map[*types.Named]bool{}
	var addStruct func(n *types.Named)
	addStruct = func(n *types.Named) {
		if want[n] {
			return
		}
		st, ok := w.structOf(n)
		if !ok {
			w.failAt(n.Obj().Pos(), "%s is not a struct type", n.Obj().Name())
		}
		want[n] = true
		for i := 0; i < st.NumFields(); i++ {
			if fl := st.Field(i); fl.Embedded() {
				en, ok := types.Unalias(fl.Type()).(*types.Named)
				if !ok || en.Obj().Pkg() != w.pkg {
					w.failAt(fl.Pos(), "embedded field %s of %s is not a struct type of this package", fl.Name(), n.Obj().Name())
				}
				addStruct(en)
			}
		}
	}
	_, poolLit := w.poolVar()
	var poolNew []string
	next := int64(0)
	for _, el := range poolLit.Elts {
		val := el
		if kv, ok := el.(*ast.KeyValueExpr); ok {
			tv := w.info.Types[kv.Key]
			if tv.Value == nil || tv.Value.Kind() != constant.Int {
				w.failAt(kv.Key.Pos(), "nodePools element index is not an integer constant")
			}
			next, _ = constant.Int64Val(tv.Value)
			val = kv.Value
		}
		tname := w.poolNewType(val)
		poolNew = append(poolNew, tuple(fmt.Sprint(next), leanStr(tname)))
		addStruct(w.lookupNamed(tname))
		next++
	}
	clears := w.clearMethods()
	var cleared []string
	for _, u := range clears {
		s := w.recvBase(u.decl)
		addStruct(w.lookupNamed(s))
		cleared = append(cleared, tuple(leanStr(s), leanStrList(w.clearedFieldsOf(u))))
	}
	var structs []*types.Named
	for n := range want {
		structs = append(structs, n)
	}
	sortedByPos(structs, func(n *types.Named) token.Pos { return n.Obj().Pos() })
	var sf []string
	for _, n := range structs {
		st, _ := w.structOf(n)
		var names []string
		for i := 0; i < st.NumFields(); i++ {
			names = append(names, st.Field(i).Name())
		}
		sf = append(sf, tuple(leanStr(n.Obj().Name()), leanStrList(names)))
	}
	f.list("(struct, fields in declaration order; an embedded struct is one field named by its type)",
		"nodeStructFields", "List (String × List String)", sf)
	f.list("(struct S, top-level fields reset by func (x *S) clear())",
		"clearedFields", "List (String × List String)", cleared)
	f.list("(index in the nodePools array literal, type allocated by that element's New)",
		"poolNew", "List (Nat × String)", poolNew)

	// --- kindConsts
	var consts []*types.Const
	for _, name := range w.pkg.Scope().Names() {
		if c, ok := w.pkg.Scope().Lookup(name).(*types.Const); ok && w.isNamed(c.Type(), "nodeKind") {
			consts = append(consts, c)
		}
	}
	if len(consts) == 0 {
		failf("%s: no constant of type nodeKind found", w.repo)
	}
	sortedByPos(consts, func(c *types.Const) token.Pos { return c.Pos() })
	var kc []string
	for _, c := range consts {
		v, ok := constant.Uint64Val(constant.ToInt(c.Val()))
		if !ok {
			w.failAt(c.Pos(), "constant %s has no natural-number value", c.Name())
		}
		kc = append(kc, tuple(leanStr(c.Name()), fmt.Sprint(v)))
	}
	f.list("(constant of type nodeKind, value)", "kindConsts", "List (String × Nat)", kc)

	// --- poolSites / putSites
	var ps, puts []string
	for _, s := range w.poolSites() {
		ps = append(ps, tuple(leanStr(s.fn), leanStr(s.op), leanStr(s.kind), leanStr(s.typ)))
		if s.op == "Put" {
			puts = append(puts, tuple(leanStr(s.fn), leanStr(s.typ), leanBool(s.clearBefore), leanBool(s.refAssignBefore)))
		}
	}
	f.list("(function, \"Get\"|\"Put\", index constant K of nodePools[K], T: asserted pointee type for Get / static pointee type of the argument for Put)",
		"poolSites", "List (String × String × String × String)", ps)
	f.list("(function, pointee type, `x.clear()` is the statement immediately before `Put(x)`,\n"+
		" a statement `*r = …` (r : *nodeRef) is an earlier sibling of the Put statement or of one of its enclosing statements)",
		"putSites", "List (String × String × Bool × Bool)", puts)
	return f.done()
}
