package main

// Gen/Layout.lean: gc/amd64 memory layout of the leaf structs (instantiated
// at a few value types) and of nodeRef.

import (
	"fmt"
	"go/types"
)

// leafTypes returns the generic leaf struct types: the pointees of the union
// terms `*xLeafNode[V]` of interface nodeLeaf[V], in source order of the union.
func (w *world) leafTypes() []*types.Named {
	nl := w.lookupNamed("nodeLeaf")
	iface, ok := nl.Underlying().(*types.Interface)
	if !ok {
		w.failAt(nl.Obj().Pos(), "nodeLeaf is not an interface")
	}
	var out []*types.Named
	for i := 0; i < iface.NumEmbeddeds(); i++ {
		un, ok := types.Unalias(iface.EmbeddedType(i)).(*types.Union)
		if !ok {
			w.failAt(nl.Obj().Pos(), "nodeLeaf embeds %s: expected a union of pointer types", w.typeStr(iface.EmbeddedType(i)))
		}
		for j := 0; j < un.Len(); j++ {
			term := un.Term(j)
			pt, ok := types.Unalias(term.Type()).(*types.Pointer)
			if !ok || term.Tilde() {
				w.failAt(nl.Obj().Pos(), "nodeLeaf union term %s is not a plain pointer type", w.typeStr(term.Type()))
			}
			named, ok := types.Unalias(pt.Elem()).(*types.Named)
			if !ok || named.Obj().Pkg() != w.pkg {
				w.failAt(nl.Obj().Pos(), "nodeLeaf union term %s does not point to a type of this package", w.typeStr(term.Type()))
			}
			g := named.Origin()
			if g.TypeParams().Len() != 1 {
				w.failAt(g.Obj().Pos(), "leaf type %s does not have exactly one type parameter", g.Obj().Name())
			}
			if _, ok := g.Underlying().(*types.Struct); !ok {
				w.failAt(g.Obj().Pos(), "leaf type %s is not a struct", g.Obj().Name())
			}
			out = append(out, g)
		}
	}
	if len(out) == 0 {
		w.failAt(nl.Obj().Pos(), "nodeLeaf lists no leaf type")
	}
	return out
}

func (w *world) structLayout(st *types.Struct, sizes types.Sizes) []string {
	var fields []*types.Var
	for i := 0; i < st.NumFields(); i++ {
		fields = append(fields, st.Field(i))
	}
	offs := sizes.Offsetsof(fields)
	var out []string
	for i, fl := range fields {
		out = append(out, tuple(leanStr(fl.Name()), fmt.Sprint(offs[i]), fmt.Sprint(sizes.Sizeof(fl.Type())), leanStr(w.typeStr(fl.Type()))))
	}
	return out
}

func genLayout(w *world) string {
	f := newLeanFile("Memory layout under types.SizesFor(\"gc\", \"amd64\").")
	sizes := types.SizesFor("gc", "amd64")
	if sizes == nil {
		failf("no size information for gc/amd64")
	}
	intT := types.Typ[types.Int]
	vs := []struct {
		name string
		typ  types.Type
	}{
		{"int", intT},
		{"string", types.Typ[types.String]},
		{"*int", types.NewPointer(intT)},
		{"[16]uint64", types.NewArray(types.Typ[types.Uint64], 16)},
		{"struct{}", types.NewStruct(nil, nil)},
	}
	var layouts, lsizes []string
	for _, g := range w.leafTypes() {
		for _, v := range vs {
			if got := w.typeStr(v.typ); got != v.name {
				failf("internal: value type %s renders as %s", v.name, got)
			}
			inst, err := types.Instantiate(types.NewContext(), g, []types.Type{v.typ}, true)
			if err != nil {
				w.failAt(g.Obj().Pos(), "cannot instantiate %s[%s]: %v", g.Obj().Name(), v.name, err)
			}
			st, ok := inst.Underlying().(*types.Struct)
			if !ok {
				w.failAt(g.Obj().Pos(), "%s[%s] is not a struct", g.Obj().Name(), v.name)
			}
			fl := w.structLayout(st, sizes)
			s := "(" + leanStr(g.Obj().Name()) + ", " + leanStr(v.name) + ", ["
			for i, x := range fl {
				if i > 0 {
					s += ", "
				}
				s += x
			}
			s += "])"
			layouts = append(layouts, s)
			lsizes = append(lsizes, tuple(leanStr(g.Obj().Name()), leanStr(v.name), fmt.Sprint(sizes.Sizeof(inst))))
		}
	}
	f.list("(leaf type — the pointees of the union terms of interface nodeLeaf, in that order —, V, fields as (name, offset, size, Go type))",
		"leafLayouts", "List (String × String × List (String × Nat × Nat × String))", layouts)
	f.list("(leaf type, V, size of the struct)", "leafSizes", "List (String × String × Nat)", lsizes)

	ref := w.lookupNamed("nodeRef")
	rst, ok := ref.Underlying().(*types.Struct)
	if !ok {
		w.failAt(ref.Obj().Pos(), "nodeRef is not a struct")
	}
	f.list("fields of struct nodeRef as (name, offset, size, Go type)",
		"nodeRefLayout", "List (String × Nat × Nat × String)", w.structLayout(rst, sizes))
	fmt.Fprintf(&f.b, "\ndef nodeRefSize : Nat := %d\n", sizes.Sizeof(ref))
	return f.done()
}
