module extract

go 1.24.0
