package main

// Loops.lean: the three byte-scanning helpers of tree.go — longestCommonPrefix, (*node).checkPrefix,
// prefixMismatch — translated statement by statement into Lean functions in the Option monad
// (`none` = the Go code would panic: an index out of range, or a loop out of fuel).
//
// Fragment (anything else is a hard error naming file:line):
//   * values of type int / uint8 / uint32 are Int (only min, +, -, comparisons and conversions between them
//     occur; + and - on unsigned operands are rejected because they could wrap);
//     []byte and [N]byte are `Bytes`; `x[e]` is `idxB x e` (none outside 0 ≤ e < len);
//   * `x := e`, `x = e`, `var x int`;
//   * `for [x = e]; x < bound; x++ { <:= assignments> if a[i] != b[j] { break | return e } }`
//     becomes a function `<f>.loopK` by recursion on a fuel argument (the call site passes
//     `(bound - x).toNat + 1`), which returns `.ok x` when the loop is left by its condition or by `break`
//     and `.error v` for `return v`;
//   * `if cond { … }` without else; `return e`;
//   * `node := n.node()` / a method receiver of type *node: the fields `prefixLen`, `prefix` become the
//     parameters `prefixLen : Int`, `prefix : Bytes`;
//   * `leaf := (L)(minimum[V](n)); leafKey := leaf.getTransformKey()` — an external walk — becomes the
//     parameter `minLeafKey : Bytes` (what it denotes is `RT.minimum`, proved elsewhere).

import (
	"fmt"
	"go/ast"
	"go/token"
	"go/types"
	"strings"
)

type lvar struct {
	lean string
	sort string // "Int" | "Bytes" | "nodeview" | "leafview"
}

type lctx struct {
	w       *world
	fname   string
	env     map[types.Object]lvar
	order   []types.Object // in-scope Int/Bytes variables in declaration order (loop parameters)
	loops   []string
	nloops  int
	usesMin bool
	hasNode bool
}

func (c *lctx) fail(pos token.Pos, format string, args ...any) {
	c.w.failAt(pos, "tree.go loop translator: "+format, args...)
}

func (c *lctx) isBytes(t types.Type) bool {
	switch u := t.Underlying().(type) {
	case *types.Slice:
		b, ok := u.Elem().Underlying().(*types.Basic)
		return ok && b.Kind() == types.Uint8
	case *types.Array:
		b, ok := u.Elem().Underlying().(*types.Basic)
		return ok && b.Kind() == types.Uint8
	}
	return false
}

func (c *lctx) isIntLike(t types.Type) (ok, unsigned bool) {
	b, isb := t.Underlying().(*types.Basic)
	if !isb {
		return false, false
	}
	switch b.Kind() {
	case types.Int, types.UntypedInt:
		return true, false
	case types.Uint8, types.Uint32:
		return true, true
	}
	return false, false
}

func (c *lctx) bind(obj types.Object, name, sort string) {
	c.env[obj] = lvar{name, sort}
	if sort == "Int" || sort == "Bytes" {
		for _, o := range c.order {
			if o == obj {
				return
			}
		}
		c.order = append(c.order, obj)
	}
}

// intExpr renders an integer-valued expression at sort Int.
func (c *lctx) intExpr(e ast.Expr) string {
	e = unparen(e)
	if tv, ok := c.w.info.Types[e]; ok && tv.Value != nil {
		if ok, _ := c.isIntLike(tv.Type); ok {
			return "(" + tv.Value.ExactString() + " : Int)"
		}
	}
	switch e := e.(type) {
	case *ast.Ident:
		if v, ok := c.env[c.w.info.Uses[e]]; ok && v.sort == "Int" {
			return v.lean
		}
		c.fail(e.Pos(), "unsupported reference to %s", e.Name)
	case *ast.SelectorExpr:
		if id, ok := unparen(e.X).(*ast.Ident); ok {
			if v, ok := c.env[c.w.info.Uses[id]]; ok && v.sort == "nodeview" && e.Sel.Name == "prefixLen" {
				return "prefixLen"
			}
		}
		c.fail(e.Pos(), "unsupported selector %s", types.ExprString(e))
	case *ast.BinaryExpr:
		if e.Op == token.ADD || e.Op == token.SUB {
			for _, side := range []ast.Expr{e.X, e.Y} {
				if ok, uns := c.isIntLike(c.w.info.TypeOf(side)); !ok || uns {
					c.fail(e.Pos(), "arithmetic on a non-int operand (%s) could wrap", c.w.info.TypeOf(side))
				}
			}
			return "(" + c.intExpr(e.X) + " " + e.Op.String() + " " + c.intExpr(e.Y) + ")"
		}
		c.fail(e.Pos(), "unsupported integer operator %s", e.Op)
	case *ast.CallExpr:
		if tv, ok := c.w.info.Types[e.Fun]; ok && tv.IsType() {
			if ok, _ := c.isIntLike(tv.Type); ok && len(e.Args) == 1 {
				if ok2, _ := c.isIntLike(c.w.info.TypeOf(e.Args[0])); ok2 {
					// int(x) / uint32(x) of a value that is a length, a prefix length or a small constant: no wrap-around
					return c.intExpr(e.Args[0])
				}
			}
			c.fail(e.Pos(), "unsupported conversion")
		}
		if id, ok := e.Fun.(*ast.Ident); ok {
			switch id.Name {
			case "len":
				if len(e.Args) == 1 && c.isBytes(c.w.info.TypeOf(e.Args[0])) {
					return "((" + c.bytesExpr(e.Args[0]) + ").length : Int)"
				}
			case "min":
				if _, isBuiltin := c.w.info.Uses[id].(*types.Builtin); isBuiltin && len(e.Args) == 2 {
					return "(min " + c.intExpr(e.Args[0]) + " " + c.intExpr(e.Args[1]) + ")"
				}
			}
		}
		c.fail(e.Pos(), "unsupported call %s", types.ExprString(e.Fun))
	}
	c.fail(e.Pos(), "unsupported integer expression %T", e)
	return ""
}

func (c *lctx) bytesExpr(e ast.Expr) string {
	e = unparen(e)
	switch e := e.(type) {
	case *ast.Ident:
		if v, ok := c.env[c.w.info.Uses[e]]; ok && v.sort == "Bytes" {
			return v.lean
		}
	case *ast.SelectorExpr:
		if id, ok := unparen(e.X).(*ast.Ident); ok {
			if v, ok := c.env[c.w.info.Uses[id]]; ok && v.sort == "nodeview" && e.Sel.Name == "prefix" {
				return "«prefix»"
			}
		}
	}
	c.fail(e.Pos(), "unsupported byte-string expression %s", types.ExprString(e))
	return ""
}

// byteNeq renders `a[i] != b[j]` as an `Option Bool`.
func (c *lctx) byteNeq(e ast.Expr) string {
	be, ok := unparen(e).(*ast.BinaryExpr)
	if !ok || be.Op != token.NEQ {
		c.fail(e.Pos(), "loop test must have the form a[i] != b[j]")
	}
	ix, ok1 := unparen(be.X).(*ast.IndexExpr)
	iy, ok2 := unparen(be.Y).(*ast.IndexExpr)
	if !ok1 || !ok2 {
		c.fail(e.Pos(), "loop test must have the form a[i] != b[j]")
	}
	return fmt.Sprintf("(do let x ← idxB %s %s; let y ← idxB %s %s; pure (x != y))",
		c.bytesExpr(ix.X), c.intExpr(ix.Index), c.bytesExpr(iy.X), c.intExpr(iy.Index))
}

func (c *lctx) boolExpr(e ast.Expr) string {
	be, ok := unparen(e).(*ast.BinaryExpr)
	if !ok {
		c.fail(e.Pos(), "unsupported condition")
	}
	switch be.Op {
	case token.LSS, token.LEQ, token.GTR, token.GEQ, token.EQL, token.NEQ:
		op := map[token.Token]string{token.LSS: "<", token.LEQ: "≤", token.GTR: ">", token.GEQ: "≥", token.EQL: "=", token.NEQ: "≠"}[be.Op]
		return "decide (" + c.intExpr(be.X) + " " + op + " " + c.intExpr(be.Y) + ")"
	}
	c.fail(e.Pos(), "unsupported condition operator %s", be.Op)
	return ""
}

func (c *lctx) params() (decl, args string) {
	var d, a []string
	if c.hasNode {
		d = append(d, "(prefixLen : Int) («prefix» : Bytes)")
		a = append(a, "prefixLen", "«prefix»")
	}
	for _, o := range c.order {
		v := c.env[o]
		d = append(d, fmt.Sprintf("(%s : %s)", v.lean, v.sort))
		a = append(a, v.lean)
	}
	return strings.Join(d, " "), strings.Join(a, " ")
}

// stmts renders a statement list followed by `rest` (the continuation) as a term of type Option Int.
func (c *lctx) stmts(list []ast.Stmt, rest func() string) string {
	if len(list) == 0 {
		return rest()
	}
	st, tail := list[0], list[1:]
	next := func() string { return c.stmts(tail, rest) }
	switch s := st.(type) {
	case *ast.DeclStmt:
		gd := s.Decl.(*ast.GenDecl)
		var out []string
		for _, sp := range gd.Specs {
			vs, ok := sp.(*ast.ValueSpec)
			if !ok || len(vs.Values) != 0 {
				c.fail(s.Pos(), "unsupported declaration")
			}
			for _, id := range vs.Names {
				obj := c.w.info.Defs[id]
				if ok, _ := c.isIntLike(obj.Type()); !ok {
					c.fail(id.Pos(), "unsupported variable type %s", obj.Type())
				}
				c.bind(obj, id.Name, "Int")
				out = append(out, fmt.Sprintf("let %s : Int := 0", id.Name))
			}
		}
		return strings.Join(out, "\n") + "\n" + next()

	case *ast.AssignStmt:
		if len(s.Lhs) != 1 || len(s.Rhs) != 1 {
			c.fail(s.Pos(), "unsupported multiple assignment")
		}
		id, ok := s.Lhs[0].(*ast.Ident)
		if !ok {
			c.fail(s.Pos(), "unsupported assignment target")
		}
		obj := c.w.info.Defs[id]
		if obj == nil {
			obj = c.w.info.Uses[id]
		}
		rhs := unparen(s.Rhs[0])
		// node := n.node()
		if call, ok := rhs.(*ast.CallExpr); ok {
			if sel, ok := call.Fun.(*ast.SelectorExpr); ok && sel.Sel.Name == "node" && len(call.Args) == 0 {
				c.env[obj] = lvar{id.Name, "nodeview"}
				c.hasNode = true
				return next()
			}
			// leaf := (L)(minimum[V](n))
			if len(call.Args) == 1 {
				if inner, ok := unparen(call.Args[0]).(*ast.CallExpr); ok {
					fn := unparen(inner.Fun)
					if ix, ok := fn.(*ast.IndexExpr); ok {
						fn = ix.X
					}
					if fid, ok := fn.(*ast.Ident); ok && fid.Name == "minimum" {
						c.env[obj] = lvar{id.Name, "leafview"}
						return next()
					}
				}
			}
			// leafKey := leaf.getTransformKey()
			if sel, ok := call.Fun.(*ast.SelectorExpr); ok && sel.Sel.Name == "getTransformKey" {
				if xid, ok := unparen(sel.X).(*ast.Ident); ok {
					if v, ok := c.env[c.w.info.Uses[xid]]; ok && v.sort == "leafview" {
						c.usesMin = true
						c.bind(obj, id.Name, "Bytes")
						return fmt.Sprintf("let %s : Bytes := minLeafKey\n", id.Name) + next()
					}
				}
			}
		}
		if s.Tok != token.DEFINE && s.Tok != token.ASSIGN {
			c.fail(s.Pos(), "unsupported assignment operator %s", s.Tok)
		}
		if ok, _ := c.isIntLike(obj.Type()); !ok {
			c.fail(s.Pos(), "unsupported assignment of a %s", obj.Type())
		}
		v := c.intExpr(rhs)
		c.bind(obj, id.Name, "Int")
		return fmt.Sprintf("let %s : Int := %s\n", id.Name, v) + next()

	case *ast.ReturnStmt:
		if len(s.Results) != 1 {
			c.fail(s.Pos(), "unsupported return")
		}
		return "pure " + c.intExpr(s.Results[0])

	case *ast.IfStmt:
		if s.Init != nil || s.Else != nil {
			c.fail(s.Pos(), "unsupported if statement (init clause or else branch)")
		}
		cond := c.boolExpr(s.Cond)
		saved := c.save()
		thenT := c.stmts(s.Body.List, next)
		c.restore(saved)
		elseT := next()
		return "if " + cond + " then\n" + indent(thenT, "  ") + "\nelse\n" + indent(elseT, "  ")

	case *ast.ForStmt:
		return c.forLoop(s, next)
	}
	c.fail(st.Pos(), "unsupported statement %T", st)
	return ""
}

type lsaved struct {
	env   map[types.Object]lvar
	order []types.Object
}

func (c *lctx) save() lsaved {
	m := make(map[types.Object]lvar, len(c.env))
	for k, v := range c.env {
		m[k] = v
	}
	return lsaved{m, append([]types.Object{}, c.order...)}
}
func (c *lctx) restore(s lsaved) { c.env, c.order = s.env, s.order }

func (c *lctx) forLoop(s *ast.ForStmt, next func() string) string {
	// `for x < bound && a[i] == b[j] { x++ }` is `for ; x < bound; x++ { if a[i] != b[j] { break } }`
	if s.Init == nil && s.Post == nil && s.Cond != nil && len(s.Body.List) == 1 {
		if and, ok := unparen(s.Cond).(*ast.BinaryExpr); ok && and.Op == token.LAND {
			if eq, ok := unparen(and.Y).(*ast.BinaryExpr); ok && eq.Op == token.EQL {
				if inc, ok := s.Body.List[0].(*ast.IncDecStmt); ok && inc.Tok == token.INC {
					neq := &ast.BinaryExpr{X: eq.X, OpPos: eq.OpPos, Op: token.NEQ, Y: eq.Y}
					brk := &ast.IfStmt{If: eq.Pos(), Cond: neq, Body: &ast.BlockStmt{Lbrace: eq.Pos(), List: []ast.Stmt{&ast.BranchStmt{TokPos: eq.Pos(), Tok: token.BREAK}}, Rbrace: eq.End()}}
					canon := &ast.ForStmt{For: s.For, Cond: and.X, Post: inc, Body: &ast.BlockStmt{Lbrace: s.Body.Lbrace, List: []ast.Stmt{brk}, Rbrace: s.Body.Rbrace}}
					return c.forLoop(canon, next)
				}
			}
		}
	}
	// cond: x < bound
	cond, ok := unparen(s.Cond).(*ast.BinaryExpr)
	if !ok || cond.Op != token.LSS {
		c.fail(s.Pos(), "loop condition must have the form x < bound")
	}
	xid, ok := unparen(cond.X).(*ast.Ident)
	if !ok {
		c.fail(s.Pos(), "loop condition must have the form x < bound")
	}
	xobj := c.w.info.Uses[xid]
	// post: x++
	inc, ok := s.Post.(*ast.IncDecStmt)
	if !ok || inc.Tok != token.INC {
		c.fail(s.Pos(), "loop post statement must be x++")
	}
	if pid, ok := unparen(inc.X).(*ast.Ident); !ok || c.w.info.Uses[pid] != xobj {
		c.fail(s.Pos(), "loop post statement must increment the loop variable")
	}
	pre := ""
	// init: x = e
	if s.Init != nil {
		as, ok := s.Init.(*ast.AssignStmt)
		if !ok || len(as.Lhs) != 1 || as.Tok != token.ASSIGN {
			c.fail(s.Init.Pos(), "loop init must be x = e")
		}
		if iid, ok := as.Lhs[0].(*ast.Ident); !ok || c.w.info.Uses[iid] != xobj {
			c.fail(s.Init.Pos(), "loop init must assign the loop variable")
		}
		pre = fmt.Sprintf("let %s : Int := %s\n", xid.Name, c.intExpr(as.Rhs[0]))
	}
	xv, ok := c.env[xobj]
	if !ok || xv.sort != "Int" {
		c.fail(s.Pos(), "loop variable %s is not an int in scope", xid.Name)
	}
	bound := c.intExpr(cond.Y)
	// the loop function: parameters = everything in scope except the loop variable
	saved := c.save()
	var outer []types.Object
	for _, o := range c.order {
		if o != xobj {
			outer = append(outer, o)
		}
	}
	c.order = outer
	decl, args := c.params()
	c.order = append(append([]types.Object{}, outer...), xobj)
	name := fmt.Sprintf("%s.loop%d", c.fname, c.nloops)
	c.nloops++
	// body: := assignments, then `if test { break | return e }`
	body := s.Body.List
	if len(body) == 0 {
		c.fail(s.Pos(), "empty loop body")
	}
	var lets []string
	for _, b := range body[:len(body)-1] {
		as, ok := b.(*ast.AssignStmt)
		if !ok || as.Tok != token.DEFINE || len(as.Lhs) != 1 {
			c.fail(b.Pos(), "unsupported statement in a loop body")
		}
		id := as.Lhs[0].(*ast.Ident)
		lets = append(lets, fmt.Sprintf("let %s : Int := %s", id.Name, c.intExpr(as.Rhs[0])))
		c.bind(c.w.info.Defs[id], id.Name, "Int")
	}
	ifs, ok := body[len(body)-1].(*ast.IfStmt)
	if !ok || ifs.Init != nil || ifs.Else != nil || len(ifs.Body.List) != 1 {
		c.fail(body[len(body)-1].Pos(), "a loop body must end in `if a[i] != b[j] { break }` or `{ return e }`")
	}
	test := c.byteNeq(ifs.Cond)
	var exit string
	switch x := ifs.Body.List[0].(type) {
	case *ast.BranchStmt:
		if x.Tok != token.BREAK || x.Label != nil {
			c.fail(x.Pos(), "unsupported branch statement")
		}
		exit = "pure (.ok " + xid.Name + ")"
	case *ast.ReturnStmt:
		if len(x.Results) != 1 {
			c.fail(x.Pos(), "unsupported return")
		}
		exit = "pure (.error " + c.intExpr(x.Results[0]) + ")"
	default:
		c.fail(ifs.Body.List[0].Pos(), "unsupported statement in the loop's if")
	}
	var lb strings.Builder
	fmt.Fprintf(&lb, "def %s %s : Nat → Int → Option (Except Int Int)\n", name, decl)
	fmt.Fprintf(&lb, "  | 0, _ => none\n  | fuel+1, %s =>\n", xid.Name)
	fmt.Fprintf(&lb, "    if decide (%s < %s) then do\n", xid.Name, bound)
	for _, l := range lets {
		fmt.Fprintf(&lb, "      %s\n", l)
	}
	fmt.Fprintf(&lb, "      let c ← %s\n", test)
	fmt.Fprintf(&lb, "      if c then %s else %s %s fuel (%s + 1)\n", exit, name, args, xid.Name)
	fmt.Fprintf(&lb, "    else pure (.ok %s)\n", xid.Name)
	c.loops = append(c.loops, lb.String())
	c.restore(saved)
	// call site
	after := next()
	return pre + fmt.Sprintf("match ← %s %s ((%s - %s).toNat + 1) %s with\n| .error v => pure v\n| .ok %s =>\n%s",
		name, args, bound, xid.Name, xid.Name, xid.Name, indent(after, "  "))
}

func (w *world) findFunc(name, recv string) *ast.FuncDecl {
	for _, f := range w.art.Syntax {
		for _, d := range f.Decls {
			fd, ok := d.(*ast.FuncDecl)
			if !ok || fd.Name.Name != name || fd.Body == nil {
				continue
			}
			if (recv == "") != (fd.Recv == nil) {
				continue
			}
			if recv != "" && w.recvBase(fd) != recv {
				continue
			}
			return fd
		}
	}
	failf("tree.go loop translator: function %s not found", name)
	return nil
}

func (w *world) genLoopFunc(name, recv string) string {
	fd := w.findFunc(name, recv)
	c := &lctx{w: w, fname: name, env: map[types.Object]lvar{}}
	if fd.Recv != nil {
		if len(fd.Recv.List) != 1 || len(fd.Recv.List[0].Names) != 1 {
			w.failAt(fd.Pos(), "tree.go loop translator: unnamed receiver")
		}
		c.env[w.info.Defs[fd.Recv.List[0].Names[0]]] = lvar{fd.Recv.List[0].Names[0].Name, "nodeview"}
		c.hasNode = true
	}
	for _, field := range fd.Type.Params.List {
		for _, id := range field.Names {
			obj := w.info.Defs[id]
			switch {
			case c.isBytes(obj.Type()):
				c.bind(obj, id.Name, "Bytes")
			case w.isNamed(obj.Type(), "nodeRef"):
				c.env[obj] = lvar{id.Name, "noderef"}
			default:
				if ok, _ := c.isIntLike(obj.Type()); ok {
					c.bind(obj, id.Name, "Int")
				} else {
					w.failAt(id.Pos(), "tree.go loop translator: unsupported parameter type %s", obj.Type())
				}
			}
		}
	}
	paramObjs := append([]types.Object{}, c.order...)
	body := c.stmts(fd.Body.List, func() string {
		c.fail(fd.Body.Rbrace, "function body does not end in a return")
		return ""
	})
	// header: node fields first (if any), declared parameters, then the minimum leaf's key (if used)
	var d []string
	if c.hasNode {
		d = append(d, "(prefixLen : Int) («prefix» : Bytes)")
	}
	for _, o := range paramObjs {
		v := c.env[o]
		if v.lean == "" {
			v = lvar{o.Name(), "Int"}
		}
		sort := "Int"
		if c.isBytes(o.Type()) {
			sort = "Bytes"
		}
		d = append(d, fmt.Sprintf("(%s : %s)", o.Name(), sort))
	}
	if c.usesMin {
		d = append(d, "(minLeafKey : Bytes)")
	}
	var b strings.Builder
	for _, l := range c.loops {
		if c.usesMin {
			// loops lifted out of the function see minLeafKey only through the local it was bound to
			b.WriteString(l + "\n")
		} else {
			b.WriteString(l + "\n")
		}
	}
	fmt.Fprintf(&b, "def %s %s : Option Int := do\n%s\n", name, strings.Join(d, " "), indent(body, "  "))
	return b.String()
}

func genLoops(w *world) string {
	var b strings.Builder
	b.WriteString("-- GENERATED by tools/extract from /repo/tree.go — do not edit.\n")
	b.WriteString("import ArtVerif.Model.GoRt\n")
	b.WriteString("set_option linter.unusedVariables false\n")
	b.WriteString("namespace ArtVerif.Gen.Loops\nopen ArtVerif\n\n")
	b.WriteString(w.genLoopFunc("longestCommonPrefix", "") + "\n")
	b.WriteString(w.genLoopFunc("checkPrefix", "node") + "\n")
	b.WriteString(w.genLoopFunc("prefixMismatch", "") + "\n")
	b.WriteString("end ArtVerif.Gen.Loops\n")
	return b.String()
}
