package main

// Gen/Casts.lean: nodeRef allocation sites, unsafe.Pointer casts and their
// syntactic tag guards, unsafe.Pointer(e) sources, uintptr uses.

import (
	"go/ast"
	"go/token"
	"go/types"
	"strings"
)

// calleeLabel names the callee of a call for the allocSites table
// ("createLeaf", "minimum", "nodeRef.node", …).
func (w *world) calleeLabel(u *unit, call *ast.CallExpr) string {
	name, _ := w.calleeName(u, call)
	for _, p := range []string{"closure:", "indirect:"} {
		name = strings.TrimPrefix(name, p)
	}
	return name
}

// ---------------------------------------------------------------------------
// Tag expressions and guards
// ---------------------------------------------------------------------------

// tagExpr describes an expression that denotes `<subject>.tag`.
type tagExpr struct {
	subject string       // source text of <subject>
	root    types.Object // root variable of <subject>
	via     types.Object // the local `kind` variable, when the tag was copied first
	from    token.Pos    // end of `kind := <subject>.tag` (NoPos when direct)
}

// directTag recognises `<x>.tag` where tag is the nodeKind field of nodeRef.
func (w *world) directTag(e ast.Expr) (tagExpr, bool) {
	sel, ok := unparen(e).(*ast.SelectorExpr)
	if !ok || sel.Sel.Name != "tag" {
		return tagExpr{}, false
	}
	s := w.info.Selections[sel]
	if s == nil || s.Kind() != types.FieldVal || !w.isNamed(s.Obj().Type(), "nodeKind") {
		return tagExpr{}, false
	}
	t := tagExpr{subject: w.text(unparen(sel.X))}
	if id := rootIdent(sel.X); id != nil {
		t.root = w.info.Uses[id]
	}
	return t, true
}

// resolveTag recognises `<x>.tag`, or a local variable whose only assignment
// in the function is `v := <x>.tag` / `v = <x>.tag`.
func (w *world) resolveTag(u *unit, e ast.Expr) (tagExpr, bool) {
	if t, ok := w.directTag(e); ok {
		return t, true
	}
	id, ok := unparen(e).(*ast.Ident)
	if !ok {
		return tagExpr{}, false
	}
	obj, ok := w.info.Uses[id].(*types.Var)
	if !ok || obj.Parent() == w.pkg.Scope() || obj.IsField() {
		return tagExpr{}, false
	}
	var rhs []ast.Expr
	var ends []token.Pos
	other := false
	ast.Inspect(u.body, func(n ast.Node) bool {
		switch n := n.(type) {
		case *ast.AssignStmt:
			for i, l := range n.Lhs {
				lid, ok := unparen(l).(*ast.Ident)
				if !ok || (w.info.Defs[lid] != obj && w.info.Uses[lid] != obj) {
					continue
				}
				if len(n.Lhs) == len(n.Rhs) && (n.Tok == token.DEFINE || n.Tok == token.ASSIGN) {
					rhs = append(rhs, n.Rhs[i])
					ends = append(ends, n.End())
				} else {
					other = true
				}
			}
		case *ast.IncDecStmt:
			if lid, ok := unparen(n.X).(*ast.Ident); ok && w.info.Uses[lid] == obj {
				other = true
			}
		case *ast.UnaryExpr:
			if lid, ok := unparen(n.X).(*ast.Ident); ok && n.Op == token.AND && w.info.Uses[lid] == obj {
				other = true
			}
		case *ast.RangeStmt:
			for _, kv := range []ast.Expr{n.Key, n.Value} {
				if kv == nil {
					continue
				}
				if lid, ok := unparen(kv).(*ast.Ident); ok && (w.info.Defs[lid] == obj || w.info.Uses[lid] == obj) {
					other = true
				}
			}
		case *ast.ValueSpec:
			for _, nm := range n.Names {
				if w.info.Defs[nm] == obj {
					other = true
				}
			}
		}
		return true
	})
	if other || len(rhs) != 1 {
		return tagExpr{}, false
	}
	t, ok := w.directTag(rhs[0])
	if !ok {
		return tagExpr{}, false
	}
	t.via, t.from = obj, ends[0]
	return t, true
}

// leafCond recognises `<tag> == nodeKindLeaf` / `<tag> != nodeKindLeaf`
// (either operand order).
func (w *world) leafCond(u *unit, cond ast.Expr) (t tagExpr, eq bool, ok bool) {
	be, isBin := unparen(cond).(*ast.BinaryExpr)
	if !isBin || (be.Op != token.EQL && be.Op != token.NEQ) {
		return
	}
	x, y := be.X, be.Y
	if w.kindConstName(x) == "nodeKindLeaf" {
		x, y = y, x
	}
	if w.kindConstName(y) != "nodeKindLeaf" {
		return
	}
	t, ok = w.resolveTag(u, x)
	return t, be.Op == token.EQL, ok
}

// terminates reports whether a block ends in return / continue / break / goto
// / panic(..).
func (w *world) terminates(b *ast.BlockStmt) bool {
	if len(b.List) == 0 {
		return false
	}
	switch s := b.List[len(b.List)-1].(type) {
	case *ast.ReturnStmt:
		return true
	case *ast.BranchStmt:
		return s.Tok == token.CONTINUE || s.Tok == token.BREAK || s.Tok == token.GOTO
	case *ast.ExprStmt:
		if c, ok := s.X.(*ast.CallExpr); ok {
			if id, ok := unparen(c.Fun).(*ast.Ident); ok {
				if bi, ok := w.info.Uses[id].(*types.Builtin); ok && bi.Name() == "panic" {
					return true
				}
			}
		}
	}
	return false
}

type interval struct{ lo, hi token.Pos }

// assignedIn reports whether obj (or memory reached from it: `*obj = …`,
// `obj.f = …`, `obj[i] = …`) is assigned, incremented, ranged into or has its
// address taken at a position inside one of the intervals.
func (w *world) assignedIn(u *unit, obj types.Object, ivs []interval) bool {
	if obj == nil {
		return true
	}
	inside := func(p token.Pos) bool {
		for _, iv := range ivs {
			if iv.lo <= p && p < iv.hi {
				return true
			}
		}
		return false
	}
	hit := func(e ast.Expr) bool {
		if e == nil {
			return false
		}
		id := rootIdent(e)
		return id != nil && (w.info.Uses[id] == obj || w.info.Defs[id] == obj)
	}
	found := false
	ast.Inspect(u.body, func(n ast.Node) bool {
		if n == nil || found {
			return false
		}
		switch n := n.(type) {
		case *ast.AssignStmt:
			if inside(n.Pos()) {
				for _, l := range n.Lhs {
					if hit(l) {
						found = true
					}
				}
			}
		case *ast.IncDecStmt:
			if inside(n.Pos()) && hit(n.X) {
				found = true
			}
		case *ast.RangeStmt:
			if inside(n.Pos()) && (hit(n.Key) || hit(n.Value)) {
				found = true
			}
		case *ast.UnaryExpr:
			if n.Op == token.AND && inside(n.Pos()) && hit(n.X) {
				found = true
			}
		}
		return true
	})
	return found
}

// guardOf computes the syntactic tag guard of a cast whose operand is
// `<x>.pointer`; "" if there is none.  See the header comment emitted into
// Casts.lean for the exact rules.
func (w *world) guardOf(u *unit, cast *ast.CallExpr, stack []ast.Node) string {
	// the operand must be <x>.pointer
	osel, ok := unparen(cast.Args[0]).(*ast.SelectorExpr)
	if !ok || osel.Sel.Name != "pointer" {
		return ""
	}
	if s := w.info.Selections[osel]; s == nil || s.Kind() != types.FieldVal || !isUnsafePointer(s.Obj().Type()) {
		return ""
	}
	subject := w.text(unparen(osel.X))

	// accept checks a candidate guard: guardPos is the start of the guarding
	// statement, live the region between the test and the cast.
	accept := func(t tagExpr, guardPos token.Pos, live interval) bool {
		if t.subject != subject {
			return false
		}
		ivs := []interval{live}
		from := guardPos
		if t.via != nil {
			ivs = append(ivs, interval{t.from, guardPos})
			from = t.from
		}
		// a loop that encloses the cast but not the point where the tag was
		// read can carry a later assignment back to the cast
		for _, a := range stack {
			switch l := a.(type) {
			case *ast.ForStmt, *ast.RangeStmt:
				if !(l.Pos() <= from && from < l.End()) {
					ivs = append(ivs, interval{l.Pos(), l.End()})
				}
			}
		}
		if w.assignedIn(u, t.root, ivs) {
			return false
		}
		if t.via != nil && w.assignedIn(u, t.via, ivs) {
			return false
		}
		return true
	}

	var child ast.Node = cast
	for i := len(stack) - 1; i >= 0; i-- {
		parent := stack[i]
		if _, ok := parent.(*ast.FuncLit); ok {
			break // guards outside a closure say nothing about the time it runs
		}
		// (c) earlier sibling `if <x>.tag ==/!= nodeKindLeaf { … exit }`
		if list, ok := stmtList(parent); ok {
			if idx := indexOfStmt(list, child); idx >= 0 {
				labelled := false
				if _, ok := list[idx].(*ast.LabeledStmt); ok {
					labelled = true
				}
				for j := idx - 1; j >= 0 && !labelled; j-- {
					if _, ok := list[j].(*ast.LabeledStmt); ok {
						labelled = true // a goto may enter below the test
						break
					}
					ifs, ok := list[j].(*ast.IfStmt)
					if !ok || ifs.Else != nil || ifs.Init != nil || !w.terminates(ifs.Body) {
						continue
					}
					if t, eq, ok := w.leafCond(u, ifs.Cond); ok {
						if accept(t, ifs.Pos(), interval{ifs.End(), cast.Pos()}) {
							if eq {
								return "ne-leaf"
							}
							return "eq-leaf"
						}
					}
				}
			}
		}
		switch p := parent.(type) {
		case *ast.CaseClause:
			// (a) case clause of `switch <tag>`
			if i >= 2 && indexOfStmt(p.Body, child) >= 0 {
				if sw, ok := stack[i-2].(*ast.SwitchStmt); ok && sw.Tag != nil && sw.Init == nil {
					if t, ok := w.resolveTag(u, sw.Tag); ok {
						if accept(t, sw.Pos(), interval{p.Colon, cast.Pos()}) {
							if p.List == nil {
								return "case:default"
							}
							var names []string
							for _, ce := range p.List {
								nm := w.kindConstName(ce)
								if nm == "" {
									w.failAt(ce.Pos(), "case expression %s of a tag switch is not a nodeKind constant name", w.text(ce))
								}
								names = append(names, nm)
							}
							return "case:" + strings.Join(names, "|")
						}
					}
				}
			}
		case *ast.IfStmt:
			// (b) then / else branch of `if <tag> ==/!= nodeKindLeaf`
			if child == ast.Node(p.Body) || (p.Else != nil && child == ast.Node(p.Else)) {
				if t, eq, ok := w.leafCond(u, p.Cond); ok && p.Init == nil {
					inThen := child == ast.Node(p.Body)
					if accept(t, p.Pos(), interval{child.Pos(), cast.Pos()}) {
						if eq == inThen {
							return "eq-leaf"
						}
						return "ne-leaf"
					}
				}
			}
		}
		child = parent
	}
	return ""
}

// ---------------------------------------------------------------------------
// Generator
// ---------------------------------------------------------------------------

func genCasts(w *world) string {
	f := newLeanFile("nodeRef allocation sites, casts from unsafe.Pointer with their syntactic tag guards,\n" +
		"unsafe.Pointer(e) sources and uintptr uses.")

	refNamed := w.lookupNamed("nodeRef")
	refStruct, ok := refNamed.Underlying().(*types.Struct)
	if !ok {
		w.failAt(refNamed.Obj().Pos(), "nodeRef is not a struct")
	}
	ptrIdx, tagIdx := -1, -1
	for i := 0; i < refStruct.NumFields(); i++ {
		switch refStruct.Field(i).Name() {
		case "pointer":
			ptrIdx = i
		case "tag":
			tagIdx = i
		}
	}
	if ptrIdx < 0 || tagIdx < 0 {
		w.failAt(refNamed.Obj().Pos(), "nodeRef has no pointer/tag field")
	}

	var allocs, zeroRefs, casts, castDetails, sources, uptrs []string

	for _, u := range w.units {
		if u.body == nil {
			continue
		}
		walk(u.body, func(n ast.Node, stack []ast.Node) {
			// ---- uintptr-typed expressions (and mentions of the type itself)
			if e, ok := n.(ast.Expr); ok {
				if tv, ok := w.info.Types[e]; ok && isUintptr(tv.Type) {
					uptrs = append(uptrs, tuple(leanStr(u.name), leanStr(w.text(e))))
				}
			}
			switch n := n.(type) {
			case *ast.CompositeLit:
				if !w.isNamed(w.info.TypeOf(n), "nodeRef") {
					return
				}
				if len(n.Elts) == 0 {
					zeroRefs = append(zeroRefs, leanStr(u.name))
					return
				}
				var pe, te ast.Expr
				for i, el := range n.Elts {
					if kv, ok := el.(*ast.KeyValueExpr); ok {
						switch kv.Key.(*ast.Ident).Name {
						case "pointer":
							pe = kv.Value
						case "tag":
							te = kv.Value
						}
					} else if i == ptrIdx {
						pe = el
					} else if i == tagIdx {
						te = el
					}
				}
				if pe == nil || te == nil {
					w.failAt(n.Pos(), "nodeRef literal %s does not set both pointer and tag", w.text(n))
				}
				tag := w.kindConstName(te)
				if tag == "" {
					w.failAt(te.Pos(), "nodeRef literal: tag %s is not a nodeKind constant name", w.text(te))
				}
				call, ok := unparen(pe).(*ast.CallExpr)
				if !ok {
					w.failAt(pe.Pos(), "nodeRef literal: pointer %s is neither unsafe.Pointer(e) nor a call returning unsafe.Pointer", w.text(pe))
				}
				var src string
				if tv := w.info.Types[call.Fun]; tv.IsType() {
					if !isUnsafePointer(tv.Type) || len(call.Args) != 1 {
						w.failAt(pe.Pos(), "nodeRef literal: unsupported pointer conversion %s", w.text(pe))
					}
					src = w.typeStr(w.info.TypeOf(call.Args[0]))
				} else {
					if !isUnsafePointer(w.info.TypeOf(call)) {
						w.failAt(pe.Pos(), "nodeRef literal: call %s does not return unsafe.Pointer", w.text(pe))
					}
					src = "unsafe.Pointer:" + w.calleeLabel(u, call)
				}
				allocs = append(allocs, tuple(leanStr(u.name), leanStr(src), leanStr(tag)))

			case *ast.CallExpr:
				tv, ok := w.info.Types[n.Fun]
				if !ok || !tv.IsType() || len(n.Args) != 1 {
					return
				}
				arg := unparen(n.Args[0])
				argT := w.info.TypeOf(arg)
				// ---- unsafe.Pointer(e)
				if isUnsafePointer(tv.Type) {
					class := "other"
					if ue, ok := arg.(*ast.UnaryExpr); ok && ue.Op == token.AND {
						if _, ok := unparen(ue.X).(*ast.CompositeLit); ok {
							class = "addr-of-composite"
						}
					}
					if class == "other" {
						switch {
						case isUintptr(argT):
							class = "uintptr"
						default:
							if _, ok := argT.Underlying().(*types.Pointer); ok {
								class = "typed-pointer"
							}
						}
					}
					sources = append(sources, tuple(leanStr(u.name), leanStr(w.text(arg)), leanStr(class)))
					return
				}
				// ---- T(e) with e : unsafe.Pointer
				if !isUnsafePointer(argT) {
					return
				}
				switch types.Unalias(tv.Type).(type) {
				case *types.Pointer, *types.TypeParam:
				default:
					if isUintptr(tv.Type) {
						return // recorded in uintptrUses
					}
					w.failAt(n.Pos(), "conversion of unsafe.Pointer to %s: neither a pointer type nor a type parameter", w.typeStr(tv.Type))
				}
				target := w.text(unparen(n.Fun))
				guard := w.guardOf(u, n, stack)
				if guard == "" {
					guard = "func:" + u.name
				}
				casts = append(casts, tuple(leanStr(u.name), leanStr(target), leanStr(guard)))
				castDetails = append(castDetails, tuple(leanStr(u.name), leanStr(target), leanStr(w.text(arg)), leanStr(guard)))
			}
		})
	}

	f.list("(function, static type of e in nodeRef{pointer: unsafe.Pointer(e), tag: T} — or \"unsafe.Pointer:<callee>\" when the\n"+
		" pointer field is a call returning unsafe.Pointer —, tag constant T)",
		"allocSites", "List (String × String × String)", allocs)
	f.list("functions containing the zero literal nodeRef{} (nil pointer; not an allocation site), one entry per occurrence",
		"zeroRefSites", "List String", zeroRefs)
	f.b.WriteString("\n")
	f.comment("Guards.  A guard is only attributed when the cast operand is `<x>.pointer` and the tested tag is `<x>.tag` for the")
	f.comment("textually identical <x> (directly, or via a local assigned exactly once from `<x>.tag`), and the root variable of <x>")
	f.comment("(and that local) is not assigned / incremented / address-taken textually between the test and the cast (for a cast in a")
	f.comment("loop that does not contain the test: anywhere in that loop); a label between test and cast voids a sibling guard.")
	f.comment("Innermost guard wins.  Otherwise the guard is \"func:<enclosing function>\".")
	f.comment("  case:<k1>|<k2>  inside that case clause of `switch <x>.tag` (case:default for the default clause)")
	f.comment("  eq-leaf/ne-leaf  then/else branch of `if <x>.tag ==/!= nodeKindLeaf`, or after an earlier sibling statement")
	f.comment("                   `if <x>.tag ==/!= nodeKindLeaf { … return|continue|break|goto|panic }` without else")
	f.list("(function, target type as written, guard)",
		"castSites", "List (String × String × String)", casts)
	f.list("same sites, same order, with the operand: (function, target type, operand source text, guard)",
		"castDetails", "List (String × String × String × String)", castDetails)
	f.list("(function, source text of e in unsafe.Pointer(e), class)",
		"pointerSources", "List (String × String × String)", sources)
	f.list("(function, text) of every expression of type uintptr",
		"uintptrUses", "List (String × String)", uptrs)
	return f.done()
}
