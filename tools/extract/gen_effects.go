package main

// Gen/Effects.lean: functions, static callees and syntactic write footprints.

import (
	"fmt"
	"go/ast"
	"go/token"
	"go/types"
	"strings"
)

// ---------------------------------------------------------------------------
// Callee naming
// ---------------------------------------------------------------------------

// funcLabel names a function or method object: "f", "T.m", "pkg.F", "pkg.T.m".
func (w *world) funcLabel(fn *types.Func, pos token.Pos) string {
	sig, ok := fn.Type().(*types.Signature)
	if !ok {
		w.failAt(pos, "callee %s has no signature", fn.Name())
	}
	recv := sig.Recv()
	if recv == nil {
		if fn.Pkg() == nil || fn.Pkg() == w.pkg {
			return fn.Name()
		}
		return fn.Pkg().Name() + "." + fn.Name()
	}
	rt := types.Unalias(recv.Type())
	if p, ok := rt.(*types.Pointer); ok {
		rt = types.Unalias(p.Elem())
	}
	switch t := rt.(type) {
	case *types.Named:
		prefix := ""
		if p := t.Obj().Pkg(); p != nil && p != w.pkg {
			prefix = p.Name() + "."
		}
		return prefix + t.Obj().Name() + "." + fn.Name()
	case *types.Interface:
		return "interface." + fn.Name()
	}
	w.failAt(pos, "cannot name the receiver type %s of callee %s", w.typeStr(rt), fn.Name())
	panic("unreachable")
}

// stripInst removes parentheses and explicit instantiation (f[V], f[K, V]).
func (w *world) stripInst(e ast.Expr) ast.Expr {
	e = unparen(e)
	var x ast.Expr
	switch ix := e.(type) {
	case *ast.IndexExpr:
		x = ix.X
	case *ast.IndexListExpr:
		x = ix.X
	default:
		return e
	}
	x = unparen(x)
	var id *ast.Ident
	switch x := x.(type) {
	case *ast.Ident:
		id = x
	case *ast.SelectorExpr:
		id = x.Sel
	}
	if id != nil {
		if _, ok := w.info.Uses[id].(*types.Func); ok {
			return x
		}
	}
	return e
}

// isLocalClosure reports whether v is a variable of the unit whose only
// assignment is `v := func…`.
func (w *world) isLocalClosure(u *unit, v *types.Var) bool {
	defs, others := 0, 0
	ast.Inspect(u.body, func(n ast.Node) bool {
		switch n := n.(type) {
		case *ast.AssignStmt:
			for i, l := range n.Lhs {
				id, ok := unparen(l).(*ast.Ident)
				if !ok || (w.info.Defs[id] != v && w.info.Uses[id] != v) {
					continue
				}
				if n.Tok == token.DEFINE && len(n.Lhs) == len(n.Rhs) {
					if _, ok := unparen(n.Rhs[i]).(*ast.FuncLit); ok {
						defs++
						continue
					}
				}
				others++
			}
		case *ast.UnaryExpr:
			if id, ok := unparen(n.X).(*ast.Ident); ok && n.Op == token.AND && w.info.Uses[id] == v {
				others++
			}
		}
		return true
	})
	return defs == 1 && others == 0
}

// calleeName classifies a call expression.  ok is false for conversions.
func (w *world) calleeName(u *unit, call *ast.CallExpr) (name string, ok bool) {
	if tv, found := w.info.Types[call.Fun]; found && tv.IsType() {
		return "", false
	}
	fun := w.stripInst(call.Fun)
	switch f := fun.(type) {
	case *ast.Ident:
		switch obj := w.info.Uses[f].(type) {
		case *types.Builtin:
			return "builtin." + obj.Name(), true
		case *types.Func:
			return w.funcLabel(obj, f.Pos()), true
		case *types.Var:
			if obj.Parent() != w.pkg.Scope() && !obj.IsField() && u.body != nil && w.isLocalClosure(u, obj) {
				return "closure:" + obj.Name(), true
			}
			return "indirect:" + obj.Name(), true
		}
		w.failAt(f.Pos(), "cannot classify callee %s", f.Name)
	case *ast.SelectorExpr:
		if sel := w.info.Selections[f]; sel != nil {
			switch sel.Kind() {
			case types.MethodVal, types.MethodExpr:
				return w.funcLabel(sel.Obj().(*types.Func), f.Pos()), true
			case types.FieldVal:
				return "indirect:" + w.text(f), true
			}
		}
		switch obj := w.info.Uses[f.Sel].(type) {
		case *types.Func:
			return w.funcLabel(obj, f.Pos()), true
		case *types.Builtin: // unsafe.Slice, unsafe.SliceData, …
			return "unsafe." + obj.Name(), true
		case *types.Var:
			return "indirect:" + w.text(f), true
		}
		w.failAt(f.Pos(), "cannot classify callee %s", w.text(f))
	case *ast.FuncLit:
		return "closure:<literal>", true
	}
	return "indirect:" + w.text(fun), true
}

// ---------------------------------------------------------------------------
// Writes
// ---------------------------------------------------------------------------

type write struct{ class, text, note, pass string }

// inBodyDecl reports whether obj is declared inside the unit's body (i.e. is
// neither a parameter, a result nor the receiver).
func (u *unit) declaredInBody(obj types.Object) bool {
	return u.body != nil && u.body.Pos() <= obj.Pos() && obj.Pos() < u.body.End()
}

type writeMode int

const (
	wDirect writeMode = iota // the location denoted by e itself
	wElems                   // the elements reachable through e (copy dst, clear, delete)
	wAppend                  // append's first argument
)

// classifyWrite implements the local / heap:recv / heap:param / global
// classification.  lits are the function literals enclosing the write
// (outermost first).  The bool result is false for writes to the blank
// identifier.
func (w *world) classifyWrite(u *unit, e ast.Expr, mode writeMode, lits []*ast.FuncLit) (write, bool) {
	out := write{text: w.text(e)}
	x := unparen(e)
	elemDeref := false
	if mode == wAppend {
		// append(x[lo:hi:hi], …): the operand has no spare capacity, so append always allocates and never writes into
		// the array x points to – whatever x is (this is the idiom that keeps a caller's key buffer untouched, C13)
		if se, ok := x.(*ast.SliceExpr); ok && se.Slice3 && se.High != nil && se.Max != nil && w.text(se.High) == w.text(se.Max) {
			if _, isSlice := w.info.TypeOf(se.X).Underlying().(*types.Slice); isSlice {
				out.class = "local"
				if len(lits) > 0 {
					out.pass = "pass-local"
				}
				return out, true
			}
		}
	}
	if mode != wDirect {
		// a re-slice of a slice denotes (part of) the same backing array
		for {
			se, ok := x.(*ast.SliceExpr)
			if !ok {
				break
			}
			if _, ok := w.info.TypeOf(se.X).Underlying().(*types.Slice); !ok {
				break
			}
			x = unparen(se.X)
		}
		switch w.info.TypeOf(x).Underlying().(type) {
		case *types.Slice, *types.Map, *types.Pointer:
			elemDeref = true
		case *types.Array:
		default:
			elemDeref = true
			out.note = "operand of unexpected type " + w.typeStr(w.info.TypeOf(x)) + ": classified as heap"
		}
	}
	pathDeref := false
	var root *ast.Ident
descend:
	for {
		switch y := x.(type) {
		case *ast.Ident:
			root = y
			break descend
		case *ast.ParenExpr:
			x = y.X
		case *ast.StarExpr:
			pathDeref = true
			x = y.X
		case *ast.SelectorExpr:
			if sel := w.info.Selections[y]; sel != nil {
				if sel.Kind() != types.FieldVal {
					w.failAt(y.Pos(), "write through a method selection %s", w.text(y))
				}
				if sel.Indirect() {
					pathDeref = true
				}
				x = y.X
				continue
			}
			// qualified identifier pkg.Var
			if v, ok := w.info.Uses[y.Sel].(*types.Var); ok && !v.IsField() {
				out.class = "global"
				return out, true
			}
			w.failAt(y.Pos(), "cannot classify written location %s", w.text(e))
		case *ast.IndexExpr:
			switch w.info.TypeOf(y.X).Underlying().(type) {
			case *types.Slice, *types.Map, *types.Pointer:
				pathDeref = true
			case *types.Array:
			default:
				pathDeref = true
				out.note = "index into " + w.typeStr(w.info.TypeOf(y.X)) + ": classified as heap"
			}
			x = y.X
		case *ast.SliceExpr:
			switch w.info.TypeOf(y.X).Underlying().(type) {
			case *types.Slice, *types.Pointer:
				pathDeref = true
			case *types.Array, *types.Basic:
			default:
				pathDeref = true
				out.note = "slice of " + w.typeStr(w.info.TypeOf(y.X)) + ": classified as heap"
			}
			x = y.X
		default:
			out.class = "heap:param"
			out.note = "location is not rooted at a variable: classified as heap"
			return out, true
		}
	}
	if root.Name == "_" {
		return out, false
	}
	obj := w.info.Uses[root]
	if obj == nil {
		obj = w.info.Defs[root]
	}
	v, ok := obj.(*types.Var)
	if !ok {
		w.failAt(root.Pos(), "written location %s is not rooted at a variable", w.text(e))
	}
	if v.Pkg() != w.pkg || v.Parent() == w.pkg.Scope() {
		out.class = "global"
		return out, true
	}
	// a variable of the enclosing function written from inside a closure
	captured := false
	if len(lits) > 0 {
		in := lits[len(lits)-1]
		captured = !(in.Pos() <= v.Pos() && v.Pos() < in.End())
	}
	heap := "heap:param"
	if u.recv != nil && v == u.recv {
		heap = "heap:recv"
	}
	// the same write seen from one run of the outermost function literal it sits in (for functions that return a
	// sequence this literal is the body of one pass): does it touch anything that outlives the run?
	if len(lits) > 0 {
		outer := lits[0]
		inPass := outer.Body.Pos() <= v.Pos() && v.Pos() < outer.Body.End() // parameters of the literal are per call too
		if !inPass {
			for _, f := range outer.Type.Params.List {
				for _, nm := range f.Names {
					if w.info.Defs[nm] == obj {
						inPass = true
					}
				}
			}
		}
		switch {
		case pathDeref:
			out.pass = heap
		case mode == wAppend && elemDeref, elemDeref:
			if inPass && isFreshSlice(w, outer, v) {
				out.pass = "pass-local"
			} else if inPass {
				out.pass = heap
			} else {
				out.pass = "captured"
			}
		case inPass:
			out.pass = "pass-local"
		default:
			out.pass = "captured"
		}
	}
	switch {
	case pathDeref:
		out.class = heap
	case mode == wAppend && elemDeref:
		// append into a slice variable declared in the function body: local
		if u.declaredInBody(v) && !captured {
			out.class = "local"
		} else if !captured && u.decl != nil && w.appendsOnlyToCallersFreshSlices(u, v) {
			// a helper that appends to its slice PARAMETER and hands it back, called only with slices the caller built
			// itself (`q = pushAll(q, n)` next to `q = append(q, …)`): the storage written is the caller's local
			out.class = "local"
			out.note = "append to a slice parameter that every caller passes from a local slice of its own and gets back"
		} else {
			out.class = heap
		}
	case elemDeref:
		out.class = heap
		if u.declaredInBody(v) && out.note == "" {
			out.note = "elements of a slice/map/pointer held in a local variable: classified as heap"
		}
	case captured:
		out.class = heap
		out.note = "variable of the enclosing function written inside a closure: classified as heap"
	default:
		out.class = "local"
	}
	return out, true
}

// isFreshSlice reports whether the slice/map variable v, declared inside lit, only ever holds storage created inside
// lit: every value assigned to it there is make(…), a composite literal, nil, append(v, …) or a re-slice of v itself.
func isFreshSlice(w *world, lit *ast.FuncLit, v *types.Var) bool {
	return isFreshIn(w, lit.Body, v, false, 0)
}

// passThrough reports whether the package-level function called by `call` hands back, for some parameter k, only
// storage of that parameter (the parameter itself, append(param, …), a re-slice of it) or storage it created itself –
// `q = pushAll(q, n)` is then as good as `q = append(q, …)`.  Returns the index k, or -1.
func passThrough(w *world, call *ast.CallExpr, depth int) int {
	if depth > 3 {
		return -1
	}
	id, ok := unparen(call.Fun).(*ast.Ident)
	if !ok {
		return -1
	}
	fn, ok := w.info.Uses[id].(*types.Func)
	if !ok || fn.Pkg() != w.pkg {
		return -1
	}
	var decl *ast.FuncDecl
	for _, f := range w.art.Syntax {
		for _, d := range f.Decls {
			if fd, ok := d.(*ast.FuncDecl); ok && fd.Recv == nil && fd.Body != nil && w.info.Defs[fd.Name] == fn {
				decl = fd
			}
		}
	}
	if decl == nil || decl.Type.Results == nil || len(decl.Type.Results.List) != 1 || len(decl.Type.Results.List[0].Names) != 0 {
		return -1
	}
	k := 0
	for _, field := range decl.Type.Params.List {
		for _, nm := range field.Names {
			pv, _ := w.info.Defs[nm].(*types.Var)
			if pv != nil {
				if _, isSlice := pv.Type().Underlying().(*types.Slice); isSlice && isFreshIn(w, decl.Body, pv, true, depth+1) {
					return k
				}
			}
			k++
		}
	}
	return -1
}

// appendsOnlyToCallersFreshSlices: v is a slice parameter of the package-level function u, u is a pass-through for it
// (isFreshIn with returns), and at EVERY call of u in the package the argument in v's position is a local slice variable
// of the caller that only ever holds storage created there (isFreshIn) and receives the call's result.
func (w *world) appendsOnlyToCallersFreshSlices(u *unit, v *types.Var) bool {
	if u.decl.Recv != nil || u.decl.Body == nil {
		return false
	}
	k, idx := 0, -1
	for _, field := range u.decl.Type.Params.List {
		for _, nm := range field.Names {
			if w.info.Defs[nm] == v {
				idx = k
			}
			k++
		}
	}
	if idx < 0 {
		return false
	}
	if _, isSlice := v.Type().Underlying().(*types.Slice); !isSlice || !isFreshIn(w, u.decl.Body, v, true, 0) {
		return false
	}
	fn, _ := w.info.Defs[u.decl.Name].(*types.Func)
	if fn == nil {
		return false
	}
	calls, ok := 0, true
	for _, f := range w.art.Syntax {
		for _, d := range f.Decls {
			fd, isFn := d.(*ast.FuncDecl)
			if !isFn || fd.Body == nil {
				continue
			}
			ast.Inspect(fd.Body, func(x ast.Node) bool {
				as, isAs := x.(*ast.AssignStmt)
				if isAs && len(as.Lhs) == 1 && len(as.Rhs) == 1 {
					if call, isCall := unparen(as.Rhs[0]).(*ast.CallExpr); isCall {
						if id, isId := unparen(call.Fun).(*ast.Ident); isId && w.info.Uses[id] == fn {
							calls++
							arg, isArg := unparen(call.Args[idx]).(*ast.Ident)
							lhs, isLhs := unparen(as.Lhs[0]).(*ast.Ident)
							if !isArg || !isLhs || w.info.Uses[arg] == nil || w.info.Uses[arg] != w.info.Uses[lhs] {
								ok = false
								return true
							}
							av, isVar := w.info.Uses[arg].(*types.Var)
							if !isVar || !(fd.Body.Pos() <= av.Pos() && av.Pos() < fd.Body.End()) || !isFreshIn(w, fd.Body, av, false, 1) {
								ok = false
							}
							return true
						}
					}
				}
				// any other mention of the function (a call in another position, a function value) is not understood
				if call, isCall := x.(*ast.CallExpr); isCall {
					if id, isId := unparen(call.Fun).(*ast.Ident); isId && w.info.Uses[id] == fn {
						// counted above when it is the right-hand side of `v = f(…)`; anything else disqualifies
						calls--
					}
				}
				return true
			})
		}
	}
	// every call was of the accepted form: each accepted call was counted +1 by the assignment and -1 by the call node
	return ok && calls == 0 && w.calledAtLeastOnce(fn)
}

func (w *world) calledAtLeastOnce(fn *types.Func) bool {
	found := false
	for _, f := range w.art.Syntax {
		ast.Inspect(f, func(x ast.Node) bool {
			if call, ok := x.(*ast.CallExpr); ok {
				if id, ok := unparen(call.Fun).(*ast.Ident); ok && w.info.Uses[id] == fn {
					found = true
				}
			}
			return true
		})
	}
	return found
}

// isFreshIn: inside `body`, every value assigned to v (and, with returns=true, every value returned) is make(…), a
// composite literal, nil, v itself, append(v, …), a re-slice of v, or a pass-through call on such a value.
func isFreshIn(w *world, body *ast.BlockStmt, v *types.Var, returns bool, depth int) bool {
	ok := true
	var fresh func(e ast.Expr) bool
	fresh = func(e ast.Expr) bool {
		switch x := unparen(e).(type) {
		case *ast.CompositeLit:
			return true
		case *ast.Ident:
			return x.Name == "nil" || w.info.Uses[x] == v
		case *ast.SliceExpr:
			return fresh(x.X)
		case *ast.CallExpr:
			if id, isId := unparen(x.Fun).(*ast.Ident); isId {
				if id.Name == "make" {
					return true
				}
				if id.Name == "append" && len(x.Args) > 0 {
					return fresh(x.Args[0])
				}
			}
			if k := passThrough(w, x, depth); k >= 0 && k < len(x.Args) {
				return fresh(x.Args[k])
			}
		}
		return false
	}
	ast.Inspect(body, func(n ast.Node) bool {
		switch n := n.(type) {
		case *ast.FuncLit:
			return !returns // return statements of nested literals are not the function's
		case *ast.ReturnStmt:
			if returns && (len(n.Results) != 1 || !fresh(n.Results[0])) {
				ok = false
			}
		case *ast.AssignStmt:
			for i, l := range n.Lhs {
				id, isId := unparen(l).(*ast.Ident)
				if !isId {
					continue
				}
				obj := w.info.Defs[id]
				if obj == nil {
					obj = w.info.Uses[id]
				}
				if obj != v {
					continue
				}
				if len(n.Rhs) != len(n.Lhs) || !fresh(n.Rhs[i]) {
					ok = false
				}
			}
		case *ast.ValueSpec:
			for i, nm := range n.Names {
				if w.info.Defs[nm] == v && i < len(n.Values) && !fresh(n.Values[i]) {
					ok = false
				}
			}
		}
		return true
	})
	return ok
}

// ---------------------------------------------------------------------------
// Generator
// ---------------------------------------------------------------------------

// closeList renders the elements and the closing bracket; a comment on the last element must not swallow the bracket
func closeList(es []elem, indent string) string {
	body := strings.TrimRight(joinElems(es, indent), "\n")
	if len(es) > 0 && es[len(es)-1].c != "" {
		return body + "\n" + indent + "]"
	}
	return body + "]"
}

func genEffects(w *world) string {
	f := newLeanFile("Functions, static callees and syntactic write footprints of package art\n" +
		"(files compiled without the build tag `verif`, no tests, GOOS=linux GOARCH=amd64).")

	var funcs, externs, calls, refs, writes, passWrites, seqFuncs []string
	for _, u := range w.units {
		funcs = append(funcs, leanStr(u.name))
		if u.body == nil {
			externs = append(externs, leanStr(u.name))
		}
		var callees, frefs []string
		addTo := func(xs *[]string, s string) {
			for _, x := range *xs {
				if x == s {
					return
				}
			}
			*xs = append(*xs, s)
		}
		var ws []write
		addWrite := func(e ast.Expr, mode writeMode, stack []ast.Node) {
			if e == nil {
				return
			}
			var lits []*ast.FuncLit
			for _, s := range stack {
				if fl, ok := s.(*ast.FuncLit); ok {
					lits = append(lits, fl)
				}
			}
			if wr, ok := w.classifyWrite(u, e, mode, lits); ok {
				ws = append(ws, wr)
			}
		}
		if u.body != nil {
			skip := map[ast.Node]bool{} // identifiers / selectors in callee position
			walk(u.body, func(n ast.Node, stack []ast.Node) {
				switch n := n.(type) {
				case *ast.CallExpr:
					name, isCall := w.calleeName(u, n)
					if !isCall {
						return
					}
					addTo(&callees, name)
					skip[w.stripInst(n.Fun)] = true
					switch name {
					case "builtin.copy", "builtin.clear", "builtin.delete":
						if len(n.Args) == 0 {
							w.failAt(n.Pos(), "%s without arguments", name)
						}
						addWrite(n.Args[0], wElems, stack)
					case "builtin.append":
						if len(n.Args) == 0 {
							w.failAt(n.Pos(), "append without arguments")
						}
						addWrite(n.Args[0], wAppend, stack)
					}
				case *ast.SelectorExpr:
					if skip[n] {
						skip[n.Sel] = true
						return
					}
					if sel := w.info.Selections[n]; sel != nil {
						if sel.Kind() == types.MethodVal || sel.Kind() == types.MethodExpr {
							addTo(&frefs, w.funcLabel(sel.Obj().(*types.Func), n.Pos()))
							skip[n.Sel] = true
						}
					} else if fn, ok := w.info.Uses[n.Sel].(*types.Func); ok {
						addTo(&frefs, w.funcLabel(fn, n.Pos()))
						skip[n.Sel] = true
					}
				case *ast.Ident:
					if skip[n] {
						return
					}
					if fn, ok := w.info.Uses[n].(*types.Func); ok {
						addTo(&frefs, w.funcLabel(fn, n.Pos()))
					}
				case *ast.AssignStmt:
					if n.Tok == token.DEFINE {
						return // short variable declarations only create/rebind locals
					}
					for _, l := range n.Lhs {
						addWrite(l, wDirect, stack)
					}
				case *ast.IncDecStmt:
					addWrite(n.X, wDirect, stack)
				case *ast.RangeStmt:
					if n.Tok == token.ASSIGN {
						addWrite(n.Key, wDirect, stack)
						addWrite(n.Value, wDirect, stack)
					}
					if _, ok := w.info.TypeOf(n.X).Underlying().(*types.Signature); ok {
						addTo(&callees, "indirect:range("+w.text(n.X)+")")
					}
				case *ast.SendStmt:
					w.failAt(n.Pos(), "channel send: not classified by the write-footprint extractor")
				case *ast.GoStmt:
					w.failAt(n.Pos(), "go statement: not classified by the write-footprint extractor")
				}
			})
		}
		calls = append(calls, tuple(leanStr(u.name), leanStrList(callees)))
		if len(frefs) > 0 {
			refs = append(refs, tuple(leanStr(u.name), leanStrList(frefs)))
		}
		if u.decl != nil && u.decl.Type.Results != nil && len(u.decl.Type.Results.List) == 1 {
			rt := w.info.TypeOf(u.decl.Type.Results.List[0].Type)
			isSeq := false
			if nt, ok := types.Unalias(rt).(*types.Named); ok && nt.Obj().Pkg() != nil && nt.Obj().Pkg().Path() == "iter" {
				isSeq = true
			} else if at, ok := rt.(*types.Alias); ok && at.Obj().Pkg() != nil && at.Obj().Pkg().Path() == "iter" {
				isSeq = true
			}
			if isSeq {
				seqFuncs = append(seqFuncs, leanStr(u.name))
				var es []elem
				for _, x := range ws {
					if x.pass != "" {
						es = append(es, elem{s: tuple(leanStr(x.pass), leanStr(x.text))})
					}
				}
				if len(es) == 0 {
					passWrites = append(passWrites, tuple(leanStr(u.name), "[]"))
				} else {
					passWrites = append(passWrites, "("+leanStr(u.name)+", [\n"+closeList(es, "    ")+")")
				}
			}
		}
		if len(ws) == 0 {
			writes = append(writes, tuple(leanStr(u.name), "[]"))
		} else {
			var es []elem
			for _, x := range ws {
				es = append(es, elem{s: tuple(leanStr(x.class), leanStr(x.text)), c: x.note})
			}
			writes = append(writes, "("+leanStr(u.name)+", [\n"+closeList(es, "    ")+")")
		}
	}

	f.list("Every function and method (\"Recv.method\" without type arguments, or \"func\"); function literals belong to the\n"+
		"function they are written in.  \"var.<name>\" is the pseudo function standing for the initialiser of the package-level\n"+
		"variable <name> when that initialiser contains calls or function literals.",
		"funcs", "List String", funcs)
	f.list("functions declared without a body (implemented in assembly): their footprint is NOT visible to this table",
		"externFuncs", "List String", externs)
	f.list("Callees per function, in order of first occurrence.  \"f\" / \"T.m\": package art (interface methods as \"Iface.m\");\n"+
		"\"pkg.F\" / \"pkg.T.m\": other packages; \"builtin.f\" / \"unsafe.f\": builtins; \"closure:v\": call of a local variable whose only\n"+
		"assignment is `v := func…` in the same function (its body is already part of this function's footprint);\n"+
		"\"indirect:<expr>\": call of any other function value; \"indirect:range(<expr>)\": range over a function iterator.\n"+
		"Conversions are not calls.",
		"calls", "List (String × List String)", calls)
	f.list("functions and methods mentioned as values (not in callee position), e.g. the method value t.restoreKey;\n"+
		"functions without such mentions are omitted",
		"funcRefs", "List (String × List String)", refs)
	f.list("Write footprint per function, in source order: LHS of `=` / `op=` / `++` / `--` (and of `for … = range`), first argument of\n"+
		"copy / clear / delete / append (every append, whether or not the result is assigned back).  `:=` and `var` only create\n"+
		"locals and are not listed; the blank identifier is skipped.\n"+
		"  local       rooted at a local variable, parameter, result or value/pointer receiver variable itself, no dereference on the path;\n"+
		"              also: append whose first argument is (a re-slice of) a slice variable declared in the function body\n"+
		"  heap:recv   path from the receiver through a pointer / slice / map\n"+
		"  heap:param  path from any other local or parameter through a pointer / slice / map (incl. locals obtained from pools, casts, calls)\n"+
		"  global      rooted at a package-level variable\n"+
		"Doubtful cases are classified as heap and carry a trailing comment.",
		"writes", "List (String × List (String × String))", writes)

	f.list("functions and methods whose single result is an iter.Seq / iter.Seq2: what they return is a sequence that may be\n"+
		"ranged over any number of times",
		"seqFuncs", "List String", seqFuncs)
	f.list("For each of those: the writes located inside function literals, classified from the point of view of ONE run of the\n"+
		"outermost literal (= one pass over the sequence):\n"+
		"  pass-local  a variable declared inside that literal (or one of its parameters), or the elements of a slice/map variable\n"+
		"              declared there that only ever holds storage created there (make, literal, nil, append/re-slice of itself)\n"+
		"  captured    a variable of the enclosing function: survives from one pass to the next\n"+
		"  heap:recv / heap:param / global   as in `writes`",
		"passWrites", "List (String × List (String × String))", passWrites)

	var globals []string
	blanks := 0
	for _, file := range w.art.Syntax {
		for _, d := range file.Decls {
			gd, ok := d.(*ast.GenDecl)
			if !ok || gd.Tok != token.VAR {
				continue
			}
			for _, s := range gd.Specs {
				for _, nm := range s.(*ast.ValueSpec).Names {
					if nm.Name == "_" {
						blanks++
						continue
					}
					globals = append(globals, leanStr(nm.Name))
				}
			}
		}
	}
	f.list("package-level variables (declarations of the blank identifier `_` are not listed: "+fmt.Sprint(blanks)+" in the source)",
		"globals", "List String", globals)
	return f.done()
}
