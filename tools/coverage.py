#!/usr/bin/env python3
"""
coverage.py [--out FILE]

What the correspondence legs actually execute of /repo: builds the harness with `go build -cover` (statement counters
in the library package), runs one pass of every leg kind, and prints per file the covered/total statements and every
statement that no leg reached, with its source line.  A measurement of generator quality, not a check: nothing here
decides a property.  Scratch files live in a temporary directory that is removed on exit.
"""
import collections, os, re, shutil, subprocess, sys, tempfile
ROOT = os.path.dirname(os.path.dirname(os.path.abspath(__file__)))
REPO = os.environ.get("VERIF_REPO", "/repo")
ENV = dict(os.environ, GOFLAGS="-mod=mod", GOPROXY="off")
ENV.pop("GOSUMDB", None); ENV.pop("GOTOOLCHAIN", None)

def sh(cmd, cwd=ROOT, env=ENV, timeout=1800):
    p = subprocess.run(cmd, cwd=cwd, env=env, stdout=subprocess.PIPE, stderr=subprocess.STDOUT, text=True, timeout=timeout)
    return p.returncode, p.stdout

def main():
    tmp = tempfile.mkdtemp(prefix="verif-cov-")
    try:
        h = os.path.join(tmp, "artdrv.cover")
        shutil.copy(os.path.join(REPO, "go.sum"), os.path.join(ROOT, "harness", "go.sum"))
        rc, out = sh(["go", "build", "-cover", "-coverpkg=artharness,github.com/Clement-Jean/go-art", "-tags", "verif", "-o", h, "."],
                     cwd=os.path.join(ROOT, "harness"))
        if rc != 0:
            raise SystemExit("build failed: " + out[-800:])
        cov = os.path.join(tmp, "cov"); os.makedirs(cov)
        env = dict(ENV, GOCOVERDIR=cov)
        legs = [
            ["-mode", "tree", "-seed", "1", "-families", "alpha,unsigned,signed,float,coll,comp", "-hists", "40", "-ops", "400", "-multipass"],
            ["-mode", "tree", "-seed", "2", "-families", "alpha,coll", "-hists", "20", "-ops", "300", "-profile", "prefix", "-multipass"],
            ["-mode", "tree", "-seed", "3", "-families", "alpha,unsigned,signed,float,comp,coll", "-hists", "20", "-ops", "300", "-profile", "range", "-multipass"],
            ["-mode", "multi", "-seed", "4", "-hists", "10", "-ops", "300", "-multi", "4", "-maxkeys", "200"],
            ["-mode", "node", "-seed", "5", "-n", "100"], ["-mode", "alias", "-seed", "6", "-n", "20"],
            ["-mode", "codec", "-seed", "7", "-n", "2000"], ["-mode", "gc", "-seed", "8", "-n", "4"],
        ]
        for l in legs:
            sh([h] + l + ["-out", os.path.join(tmp, "t.txt")], env=env)
        txt = os.path.join(tmp, "cov.txt")
        sh(["go", "tool", "covdata", "textfmt", "-i=" + cov, "-pkg=github.com/Clement-Jean/go-art", "-o", txt])
        tot, hit, un = collections.Counter(), collections.Counter(), collections.defaultdict(list)
        for l in open(txt):
            m = re.match(r"(.+):(\d+)\.(\d+),(\d+)\.(\d+) (\d+) (\d+)", l)
            if not m:
                continue
            f = m.group(1).split("/")[-1]
            if f == "verif_hooks.go" or f == "nodekind_string.go":
                continue
            n, c = int(m.group(6)), int(m.group(7))
            tot[f] += n
            if c:
                hit[f] += n
            else:
                un[f].append(int(m.group(2)))
        lines = []
        T, H = sum(tot.values()), sum(hit.values())
        lines.append(f"library statements reached by the correspondence legs: {H}/{T} ({100.0 * H / T:.1f}%)")
        for f in sorted(tot):
            lines.append(f"  {f}: {hit[f]}/{tot[f]}")
        lines.append("statements no leg reached:")
        for f in sorted(un):
            src = open(os.path.join(REPO, f)).read().split("\n")
            for ln in sorted(set(un[f])):
                lines.append(f"  {f}:{ln}: {src[ln - 1].strip()[:100]}")
        text = "\n".join(lines)
        print(text)
        if "--out" in sys.argv:
            open(sys.argv[sys.argv.index("--out") + 1], "w").write(text + "\n")
    finally:
        shutil.rmtree(tmp, ignore_errors=True)

main()
