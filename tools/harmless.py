#!/usr/bin/env python3
"""
harmless.py <dir-with-patch.diff> <id> <checks,comma>  — applies a behaviour-preserving change to /repo, runs the given
quick checks, undoes it, and records under /verif/harmless/<id>/ which checks stayed quiet and which raised an alarm
(and whether the alarm came with a failing input or was a broken tie: `no-failing-input-found`).
"""
import json, os, shutil, subprocess, sys, time
ROOT = os.path.dirname(os.path.dirname(os.path.abspath(__file__)))
src, hid, checks = sys.argv[1], sys.argv[2], sys.argv[3].split(",")
dst = os.path.join(ROOT, "harmless", hid)
os.makedirs(dst, exist_ok=True)
def sh(cmd, cwd=ROOT, timeout=3600):
    p = subprocess.run(cmd, cwd=cwd, shell=isinstance(cmd, str), stdout=subprocess.PIPE, stderr=subprocess.STDOUT, text=True, errors="replace", timeout=timeout)
    return p.returncode, p.stdout
rc, out = sh(["git", "-C", "/repo", "status", "--short"])
if out.strip():
    raise SystemExit("/repo is not clean: " + out)
ev_keep = {}
for c in checks:
    ev = os.path.join(ROOT, "evidence", c + ".json")
    if os.path.exists(ev):
        ev_keep[ev] = open(ev).read()
res = {}
try:
    rc, out = sh(["git", "-C", "/repo", "apply", os.path.join(src, "patch.diff")])
    if rc != 0:
        raise SystemExit("patch does not apply: " + out)
    for c in checks:
        t0 = time.time()
        rc, out = sh(["./check", c, "--tier", "quick"])
        vio = [l for l in out.splitlines() if l.startswith("VIOLATION")]
        res[c] = dict(exit=rc, violation=vio[:2], wall_s=round(time.time() - t0, 1))
        for v in vio[:1]:
            rp = v.split("replay=")[1].split()[0]
            if os.path.exists(rp):
                shutil.copy(rp, os.path.join(dst, f"replay-{c}.txt"))
finally:
    sh(["git", "-C", "/repo", "checkout", "--", "."])
    for ev, txt in ev_keep.items():
        open(ev, "w").write(txt)
shutil.copy(os.path.join(src, "patch.diff"), os.path.join(dst, "patch.diff"))
if os.path.exists(os.path.join(src, "NOTES.md")):
    shutil.copy(os.path.join(src, "NOTES.md"), os.path.join(dst, "NOTES.md"))
meta = dict(id=hid, checks=res, quiet=[c for c, r in res.items() if r["exit"] == 0],
            alarms=[c for c, r in res.items() if r["exit"] != 0])
json.dump(meta, open(os.path.join(dst, "meta.json"), "w"), indent=1)
print(json.dumps(meta))
