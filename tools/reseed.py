#!/usr/bin/env python3
"""re-runs the targeted quick check against every seeded change stored under /verif/seeded (applies patch.diff to
/repo, runs ./check <property>, undoes it) and rewrites detected_by / checks in meta.json"""
import json, os, subprocess, sys, time, glob, shutil
ROOT = os.path.dirname(os.path.dirname(os.path.abspath(__file__)))
ENV = dict(os.environ, GOFLAGS="-mod=mod", GOPROXY="off")
REPO = os.environ.get("VERIF_REPO", "/repo")

def sh(cmd, cwd=ROOT, timeout=3600):
    p = subprocess.run(cmd, cwd=cwd, env=ENV, stdout=subprocess.PIPE, stderr=subprocess.STDOUT, text=True, timeout=timeout)
    return p.returncode, p.stdout

only = sys.argv[1:]
missed = []
for d in sorted(glob.glob(os.path.join(ROOT, "seeded", "*", "meta.json"))):
    sd = os.path.dirname(d)
    name = os.path.basename(sd)
    if only and name not in only:
        continue
    meta = json.load(open(d))
    pid = meta["property"]
    rc, out = sh(["git", "-C", REPO, "status", "--short"])
    assert not out.strip(), out
    ev = os.path.join(ROOT, "evidence", pid + ".json")
    ev_keep = open(ev).read() if os.path.exists(ev) else None  # evidence describes the unchanged tree: put it back
    try:
        rc, out = sh(["git", "-C", REPO, "apply", os.path.join(sd, "patch.diff")])
        assert rc == 0, out
        t0 = time.time()
        rc, out = sh(["./check", pid, "--tier", "quick"])
        vio = [l for l in out.splitlines() if l.startswith("VIOLATION")]
        meta.setdefault("checks", {})[pid] = dict(exit=rc, violation=vio[:2], wall_s=round(time.time() - t0, 1))
        meta["detected_by"] = [c for c, r in meta["checks"].items() if r["exit"] != 0]
        for v in vio[:1]:
            rp = v.split("replay=")[1].split()[0]
            if os.path.exists(rp):
                shutil.copy(rp, os.path.join(sd, f"replay-{pid}.txt"))
    finally:
        sh(["git", "-C", REPO, "checkout", "--", "."])
        if ev_keep is not None:
            open(ev, "w").write(ev_keep)
    json.dump(meta, open(d, "w"), indent=1)
    print(name, "DETECTED" if rc != 0 else "MISSED", vio[:1], flush=True)
    if rc == 0:
        missed.append(name)
print("missed:", missed)
