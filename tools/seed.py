#!/usr/bin/env python3
"""
seed.py <Cxx> <A|B> [--checks C01,C02,...]

Confirms a candidate change delivered under /tmp/mut/<Cxx>/out/<V>/ (patch.diff + demo) in its scratch worktree
(suite passes with it, demo fails with it, demo passes without it), then applies it to /repo, runs the given
checks (default: the property it targets), undoes it, and stores everything under /verif/seeded/<Cxx>-<V>/.
"""
import json, os, shutil, subprocess, sys, time
ROOT = os.path.dirname(os.path.dirname(os.path.abspath(__file__)))
ENV = dict(os.environ, GOFLAGS="-mod=mod", GOPROXY="off")


def sh(cmd, cwd, timeout=1800):
    p = subprocess.run(cmd, cwd=cwd, env=ENV, shell=isinstance(cmd, str), stdout=subprocess.PIPE, stderr=subprocess.STDOUT, text=True, errors="replace", timeout=timeout)
    return p.returncode, p.stdout


def main():
    pid, var = sys.argv[1], sys.argv[2]
    rnd = ""
    if "--round" in sys.argv:
        rnd = sys.argv[sys.argv.index("--round") + 1]
    checks = [pid]
    if "--checks" in sys.argv:
        checks = sys.argv[sys.argv.index("--checks") + 1].split(",")
    mutroot = "/tmp/mut" + rnd
    wt = f"{mutroot}/{pid}"
    src = f"{wt}/out/{var}"
    dst = os.path.join(ROOT, "seeded", f"{pid}-{var}{rnd}")
    os.makedirs(dst, exist_ok=True)
    meta = dict(property=pid, variant=var, ran=[])
    notes = open(os.path.join(src, "NOTES.md")).read() if os.path.exists(os.path.join(src, "NOTES.md")) else ""
    demos = [f for f in os.listdir(src) if f.endswith("_test.go") or f == "demo.sh"]
    # ---- confirm in the scratch worktree -----------------------------------------------------------
    stash = f"{mutroot}/{pid}.out"
    if os.path.exists(stash):
        shutil.rmtree(stash)
    shutil.copytree(f"{wt}/out", stash)
    sh("git checkout -- . && git clean -fdq", wt)
    rc, out = sh(["git", "apply", f"{stash}/{var}/patch.diff"], wt)
    meta["patch_applies"] = rc == 0
    rc, out = sh("go build ./... && go vet . && go test -vet=off -count=1 ./...", wt)
    meta["suite_passes_with_change"] = rc == 0
    meta["ran"].append("go build ./... && go vet . && go test -vet=off -count=1 ./...   (with the change: rc=%d)" % rc)
    flags = "-race" if pid == "C16" or ("-race" in notes and "without `-race`" not in notes and "not `-race`" not in notes) else ""
    if pid in ("C18", "C13") and "-d=checkptr" in notes:
        flags = "-gcflags=all=-d=checkptr"
    demo_env = "GOARCH=386 " if "GOARCH=386" in notes else ""
    if demo_env:
        flags = ""  # the race detector does not exist on 386

    def run_demo():
        results = []
        for d in demos:
            if d == "demo.sh":
                shutil.copy(f"{stash}/{var}/demo.sh", f"{wt}/demo.sh")
                rc, out = sh(f"sh demo.sh {wt}", wt)
                os.remove(f"{wt}/demo.sh")
            else:
                shutil.copy(f"{stash}/{var}/{d}", f"{wt}/zz_{d}")
                rc, out = sh(f"{demo_env}go test {flags} -vet=off -count=1 -run 'TestDemo' .", wt)
                os.remove(f"{wt}/zz_{d}")
            results.append((rc, out[-600:]))
        return results
    r1 = run_demo()
    meta["demo_fails_with_change"] = any(rc != 0 for rc, _ in r1)
    meta["demo_output_with_change"] = r1[0][1] if r1 else ""
    sh("git checkout -- . && git clean -fdq", wt)
    r2 = run_demo()
    meta["demo_passes_without_change"] = all(rc == 0 for rc, _ in r2)
    sh("git checkout -- . && git clean -fdq", wt)
    shutil.copytree(stash, f"{wt}/out", dirs_exist_ok=True)
    meta["ran"].append(f"{demo_env}go test {flags} -run TestDemo . with and without the change")
    # ---- run the checks against /repo with the change ---------------------------------------------------
    rc, out = sh(["git", "-C", "/repo", "status", "--short"], ROOT)
    if out.strip():
        raise SystemExit("/repo is not clean: " + out)
    ev_keep = {}
    for c in checks:
        ev = os.path.join(ROOT, "evidence", c + ".json")
        if os.path.exists(ev):
            ev_keep[ev] = open(ev).read()  # evidence describes the unchanged tree: put it back afterwards
    results = {}
    try:
        rc, out = sh(["git", "-C", "/repo", "apply", f"{stash}/{var}/patch.diff"], ROOT)
        if rc != 0:
            raise SystemExit("patch does not apply to /repo: " + out)
        for c in checks:
            t0 = time.time()
            rc, out = sh(["./check", c, "--tier", "quick"], ROOT, timeout=3600)
            vio = [l for l in out.splitlines() if l.startswith("VIOLATION")]
            results[c] = dict(exit=rc, violation=vio[:2], wall_s=round(time.time() - t0, 1))
            # keep the replay next to the seeded change
            for v in vio[:1]:
                rp = v.split("replay=")[1].split()[0]
                if os.path.exists(rp):
                    shutil.copy(rp, os.path.join(dst, f"replay-{c}.txt"))
    finally:
        sh(["git", "-C", "/repo", "checkout", "--", "."], ROOT)
        for ev, txt in ev_keep.items():
            open(ev, "w").write(txt)
    rc, out = sh(["git", "-C", "/repo", "status", "--short"], ROOT)
    assert not out.strip(), out
    meta["checks"] = results
    meta["detected_by"] = [c for c, r in results.items() if r["exit"] != 0]
    import re
    mm = re.search(r'(?im)^#+.*needs.*$\n+((?:.+\n)+)', notes)
    meta["needs"] = " ".join(mm.group(1).split())[:600] if mm else ""
    sp = os.path.join(ROOT, "seeded", "SUMMARY.json")
    if os.path.exists(sp):
        meta["what"] = json.load(open(sp)).get(f"{pid}-{var}{rnd}", "")
    meta["breaks_property"] = pid
    shutil.copy(f"{stash}/{var}/patch.diff", os.path.join(dst, "patch.diff"))
    for d in demos:
        shutil.copy(f"{stash}/{var}/{d}", os.path.join(dst, d if d == "demo.sh" else d + ".txt"))
    if notes:
        open(os.path.join(dst, "NOTES.md"), "w").write(notes)
    json.dump(meta, open(os.path.join(dst, "meta.json"), "w"), indent=1)
    print(json.dumps({k: meta[k] for k in ("property", "variant", "patch_applies", "suite_passes_with_change", "demo_fails_with_change", "demo_passes_without_change", "detected_by")}))
    print(json.dumps(results))


main()
