#!/usr/bin/env python3
"""writes /verif/MANIFEST.json from the per-property notes below"""
import json, os, subprocess
ROOT = os.path.dirname(os.path.dirname(os.path.abspath(__file__)))

NOTES = {
 "C01": ("refinement theorem `C01.refines_map`: for every history of Insert/Delete/Search and every key transformation with prefix-free inserted keys, the tree model returns exactly what the ideal map returns and denotes exactly its state (induction over the history from `insert_spec`, `deleteNode_spec`, `search_sound/complete`); tied to the code by structural + observable correspondence on generated histories of all six kinds and all key types; `C01Loops.checkPrefix_spec`, `prefixMismatch_spec`: the Go helpers `(*node).checkPrefix` and `prefixMismatch`, regenerated statement by statement from tree.go on every run (`Gen/Loops.lean`), return the model's `checkPrefixOk` / `T.prefixMismatch` values and never index out of range",
         "model of trees.go/collation.go/tree.go hand-written, tied by correspondence only on generated inputs (node.go, node4.go, keys.go, the node16 assembly and the scan loops of tree.go are regenerated from the source on every run); keys containing 0x00 in byte-string trees are outside the contract (known finding D3)", "DESIGN §5 C01"),
 "C02": ("`all_eq_items`, `backward_eq_reverse` (explicit-stack loops = early-exit fold over the in-order leaves), `items_strictly_sorted`, `items_complete`, `lexLt_terminated` (order of terminated byte strings = bytewise order of the originals); numeric orders via C07; `C02Raw.raw_all_after_history`: the same for the tree of RAW node records – `all()`/`backward()` with the per-class loops of tree.go (lanes below childrenLen, the 256 index bytes of a node48, the 256 slots of a node256) never pop a nil reference and hand the consumer exactly Layer T's items, after any history",
         "collator order = byte order of collate.Key (x/text contract); correspondence on generated histories", "DESIGN §5 C02"),
 "C03": ("`range_eq_filter`, `rangeNum_eq_filter`, `rangeOpen_eq_filter`, `range_empty`: the pruned scan with per-entry depth equals the filter of the sorted content by the inclusive bounds, for both bound orders, equal bounds, open end, empty tree; `C03Raw.raw_range_after_history`: `rangeScan` over raw node records (per-class loops, raw header) is that filter after any history; `C03Loops.longestCommonPrefix_spec`: the regenerated Go `longestCommonPrefix` is the model's `lcpLen`",
         "bounds carved out by the property (NaN, (-0,+0), empty end with start above the maximum) are not generated; collation trees excluded", "DESIGN §5 C03"),
 "C04": ("`prefix_eq_filter` via `lcp_spec` (the subtree selected by the descent contains every key starting with p), `prefixColl_eq_filter`; `C04Raw.raw_prefix_after_history`: `lowestCommonParent` through `Raw.find` + `filter` over raw node records is that filter after any history; `C04Loops.prefixMismatch_spec`: the regenerated Go `prefixMismatch` is the model's for every prefix argument", "collation Prefix (as repaired) filters the whole tree", "DESIGN §5 C04"),
 "C05": ("`minimum_eq_head`, `maximum_eq_last`, `bottomK_eq_take`, `topK_eq_take_reverse` for every n; `C05Raw.minimum_is_least` / `maximum_is_greatest`: the per-class walks of minimum()/maximum() over raw nodes (children[0], children[childrenLen-1], the node48/node256 scans) reach the least / greatest stored key; `C05RawSeq.raw_topK_bottomK_after_history`: TopK/BottomK through the raw `backward`/`all` loops; `C05NodeOps.go_minimum_step_is_first_entry` / `go_maximum_step_is_last_entry`: the switch of tree.go's `minimum()`/`maximum()`, regenerated from the source on every run (`Gen/NodeOps.lean`: `children[0]`, `children[childrenLen-1]` on a uint8, the four scan loops), IS `Raw.minChild`/`Raw.maxChild` and continues with the child of the first / last table entry on every node satisfying the raw invariant", "same tie as C02; the loop head of the walk (nil test, leaf test) is mirrored by hand in `RT.minimum/maximum`; the real minimum()/maximum() are also followed node by node in the bare-node correspondence", "DESIGN §5 C05, §10.2"),
 "C06": ("`size_eq_card` (conjunct of the invariant preserved by every step), `insert_size`, `delete_size`", "same tie as C01", "DESIGN §5 C06"),
 "C07": ("`encU/encI/encF*_lt_iff`, `dec*_enc*`, `*_length`, `enc*_eq_iff`, `concat_lex` for all widths; float word lemmas at 32/64 bits by bv_decide; `C07Gen.*_ok`: the same statements (fixed length, round trip, order isomorphism, injectivity, NaN collapse) for the fourteen clauses of keys.go's Transform/Restore type switches as *regenerated on every run* into `Gen/Keys.lean` by the translator (so an edit of a constant, operator or branch of keys.go breaks a proof obligation whether or not a sample hits it)",
         "bv_decide native axioms for six float word lemmas (disclosed in evidence); trusted reading of package math on bit patterns (Model/Ieee.lean: which patterns IsInf/IsNaN/Inf/NaN denote) and of encoding/binary (big-endian), both cross-checked by the codec correspondence; IEEE order = declared rank is cross-checked against Go's own comparison operators; 64-bit codecs additionally tied on boundary/adjacent/random samples, 8-bit exhaustively (16-bit exhaustively in the thorough tier, also GOARCH=386)", "DESIGN §5 C07, §10.7"),
 "C08": ("`terminated_sortkeys_prefix_free`, `collation_refines_map`, `lexLt_terminated2`: for every sort-key function whose keys are distinct, never continue one another with 00 00 and never differ by one trailing 00, C01–C06 hold on original strings and the terminator keeps the order",
         "x/text collate.Key is a parameter: `KeysOK` is assumed of it and measured on every generated pair; collator order = byte order of keys is x/text's contract", "DESIGN §5 C08"),
 "C09": ("`compound_refines_map` for every injective prefix-free codec; `fixed_then_tail_prefixFree`, `tuple_order`, schema instances from C07", "codecs generated from random field schemas; user codecs outside the contract are not claimed", "DESIGN §5 C09"),
 "C10": ("`find_spec`, `abs_sorted`, `add_spec`, `remove_spec`, `mergeHdr_spec` for all four classes incl. every grow/shrink, SWAR lemmas (`searchNode4_spec`, `insertPosNode4_spec`, lane permutations) on the definitions regenerated from node4.go; `C10Asm.amd64_searchNode16_spec` / `amd64_insertPosNode16_spec`: the two routines of node16_amd64.s, regenerated instruction by instruction into `Gen/Asm.lean` and run on an instruction model, return the lane-level scalar scan for every register file on entry, every content of all sixteen lanes and every fill ≤ 16 (`amd64_stale_lanes_irrelevant`); `C10Arm64.*`: on an (unvalidated) instruction model node16_arm64.s ignores the fill count and a reachable node16 makes findChild return a deleted child – a model-level finding, no verdict depends on it; `C10NodeOps.go_findChild_is_table_lookup`, `go_addChild_inserts`, `go_deleteChild_removes`: the child-table methods of node.go – `(*nodeRef).findChild/addChild/deleteChild`, and addChild/deleteChild/clear of node4, node16, node48, node256 with every class change (4→16→48→256, 256→48→16→4, their five loops) and the node4 collapse – regenerated statement by statement into `Gen/NodeOps.lean` on every run, compute `Raw.find/add/remove/mergeHdr` (`Proofs/GenNodeOps`, kernel only) and are therefore (`Proofs/RawNodes`) a correct ordered byte→child table for every node content, probe byte and zeroed pool",
         "Model/GoNode.lean (Go slice/copy/index semantics on fixed arrays, uint8/uint32 wrap-around, nil pointer = none, sync.Pool.Get = a parameter) is a trusted reading, exercised by the field-by-field comparison of every real dump with the raw-node model the regenerated code is proved equal to; bv_decide native axioms for the SWAR and assembly lemmas (disclosed); Model/Amd64.lean (meaning of sixteen instructions) is trusted and executed next to the real routines on every run (asmdrv); the portable node16 routines are tied to the lane-level model by correspondence (GOARCH=386 legs, structured exhaustive sweep in the thorough tier); node16_arm64.s cannot be run here: its model is not validated beyond the decoding of its raw WORDs by the Go disassembler, and C10 is claimed for amd64 and the portable routines only", "DESIGN §5 C10, §10.7, §10.8"),
 "C11": ("`C11RawTree.rtree_refines_map` (a tree of RAW node records – SWAR word, lanes, index, slots – simulates the abstract tree for Search/Insert/Delete and keeps `Raw.inv` on every node), `wf_step`, `wf_after_history`, `stored_key_reachable`, `keys_below_share_path`, `thresholds_consistent` on regenerated constants; raw invariant + abstraction checked by the Lean driver on a dump after every operation; the tree of RAW node records (`Model/RTree`, the subject of `C11RawTree.rtree_refines_map`) is run in lockstep by the correspondence driver and compared with every real dump field by field – class, childrenLen, prefixLen, all ten prefix bytes, every lane / index byte including unoccupied ones, the occupancy of every slot, the slot of every child; `C11NodeOps.go_collapse_merges_paths`: the path merge of `node4.deleteChild` as regenerated from node.go (nested `if prefix < maxPrefixLen`, two `copy`s, uint32 arithmetic) writes `Raw.mergeHdr` into the surviving child – path ++ branch byte ++ child path, ten bytes inline, exact length; `go_addChild_keeps_wellformed`",
         "recorded fan-out of a node256 holding 256 children is 0 (known finding D10)", "DESIGN §5 C11"),
 "C12": ("`clear_covers_all_fields`, `pool_sites_match_type`, `put_after_clear_and_unlink` decided on fact tables regenerated from node.go/pool.go; `world_step_independent`, `emptied_is_init`; interleaved multi-tree correspondence; `C12NodeOps.go_clear_is_zero`, `go_addChild_keeps_pools_zero`, `go_node16_shrink_releases_zero`: on node.go as regenerated from the source, every node handed to `Put` is the zero image under the pool index of its own class whenever the pools hold zero images (the pool invariant is inductive for the translated code), and grown nodes are built from the zero image",
         "partial: sync.Pool itself and object identity are outside the model; the tie is the per-tree correspondence of interleaved histories", "DESIGN §5 C12"),
 "C13": ("`caller_bytes_unchanged`, `leaf_storage_fresh`, `leaf_storage_content`, `caller_scribble_does_not_reach_leaf` on a slice micro-model of the key prologue; alias leg with canaries and buffer reuse on the real code",
         "partial: Go slice semantics hand-modelled (40 lines)", "DESIGN §5 C13"),
 "C14": ("`*_stop_prefix` (no element after the consumer's false), `topK_restartable`, `bottomK_restartable`, `all_restartable` on the yield-driven fold model with explicit captured state; `C14Passes.passes_write_only_their_own_state` on the regenerated table of writes inside sequence closures (nothing a pass writes survives it)", "same tie as C02", "DESIGN §5 C14"),
 "C15": ("`query_no_state`, `delete_absent_id`, `overwrite_only_value`, `queries_do_not_affect_state`; raw dump equality around every read-only / no-op call on the real code", "purity of the real query code is checked by dump comparison, not proved", "DESIGN §5 C15"),
 "C16": ("`query_closure_writes_nothing_shared`, `only_global_is_pool`, `drf_from_effects` decided on the write-footprint table regenerated from the source; goroutine runs under the race detector compared with the sequential model",
         "partial: schedules, the Go memory model and sync.Pool are not modelled; the footprint extractor is syntactic", "DESIGN §5 C16"),
 "C17": ("`inner_lt_leaves`, `retained_le_linear`, `emptied_retains_nothing`, `bufNew_bounded` (cost model); live-heap measurement around 10^4..10^6 operations",
         "partial: collector and allocator are measured, not modelled", "DESIGN §5 C17"),
 "C18": ("`tag_discipline`, `leaf_layouts_equal`, `no_uintptr` decided on regenerated cast/alloc/layout tables; GOGC=1 + forced collections + checkptr runs with five value types",
         "partial: the collector is exercised, not modelled; the cast-guard finder is syntactic", "DESIGN §5 C18"),
 "C19": ("`rendered_eq_checked_in`: a Lean model of the template constructs applied to the regenerated template/configuration equals the checked-in trees.go modulo whitespace; byte-for-byte leg by running the real generator + gofmt in a scratch copy",
         "finite statement about the working tree; text/template and gofmt are run, not modelled", "DESIGN §5 C19"),
}

def main():
    props = [json.loads(l) for l in open(os.path.join(ROOT, "properties.jsonl"))]
    hook_commits = subprocess.run(["git", "-C", "/repo", "log", "--format=%H %s"], capture_output=True, text=True).stdout.splitlines()
    hooks = [l.split()[0] for l in hook_commits if " verif:" in l]
    checks = []
    for p in props:
        pid = p["id"]
        text, note, ref = NOTES[pid]
        checks.append(dict(
            property_id=pid,
            quick_cmd=f"./check {pid} --tier quick",
            thorough_cmd=f"./check {pid} --tier thorough",
            evidence_file=f"/verif/evidence/{pid}.json",
            replay_cmd_template=f"./check {pid} --replay {{path}}",
            engine="lean4-proof+correspondence",
            level_claimed=dict(category="proof", text=text, design_ref=ref),
            level_note=note,
            technique="machine-checked proof in Lean 4 about a model; model tied to the code by regenerated definitions/fact tables and a correspondence run against the real code",
        ))
    m = dict(
        version=1,
        setup_cmd="./setup.sh",
        hooks=dict(guard="verif", enable="go build -tags verif (harness module with replace => /repo)",
                   baseline_off_cmd="cd /repo && go test -mod=mod -json -vet=off -count=1 -timeout 25m ./...",
                   source_commits=hooks, add_only=True),
        engines=[dict(name="lean4-proof+correspondence", path="/verif/check", serves_properties=[p["id"] for p in props],
                      kind_free_text="Lean 4 model + theorems (lean/), Go->Lean translator (tools/extract), Go harness (harness/) and Lean driver (lean/Driver.lean) for the correspondence")],
        checks=checks,
        notes="see DESIGN.md; known findings in known_findings.json; VERIF_SEED and VERIF_TIER are honoured",
        not_applicable=[],
    )
    json.dump(m, open(os.path.join(ROOT, "MANIFEST.json"), "w"), indent=1)

main()
