#!/bin/sh
# Development experiment, not a registered check (nothing in MANIFEST.json calls it).  Prerequisites it assumes:
#   /tmp/harm/H1      a scratch worktree of /repo        (git -C /repo worktree add --detach /tmp/harm/H1 HEAD)
#   /tmp/extract_new  the extractor                        (cd /verif/tools/extract && go build -o /tmp/extract_new .)
#   /tmp/leandev      a private copy of /verif/lean with its own .lake   (rsync -a /verif/lean/ /tmp/leandev/)
# Remove all three afterwards (git -C /repo worktree remove --force /tmp/harm/H1).
cd /tmp/harm/H1 && git checkout -q -- .
cp /tmp/leandev/ArtVerif/Gen/NodeOps.lean /tmp/NodeOps.g; cp /tmp/leandev/ArtVerif/Gen/IterOps.lean /tmp/IterOps.g; cp /tmp/leandev/ArtVerif/Gen/Loops.lean /tmp/Loops.g
for s in  C02-A C02-A10 C02-A12 C02-A5 C02-A9 C02-B C03-A C03-A10 C03-A2 C03-A3 C03-A4 C03-A6 C03-A7 C03-A8 C03-A9 C04-A C04-A11 C04-A2 C04-A5 C04-A6 C04-A7 C04-A8 C04-A9 C04-B C04-B2 C05-A C05-A10 C05-A12 C05-A2 C05-A3 C05-A4 C05-A6 C05-A7 C05-A8 C05-A9 C05-B C09-A10 C09-A4 C09-A6 C09-A7 C09-A8 C09-B2 C12-A3 C12-B2 C13-A4 C13-B2 C14-A C14-A11 C14-A4 C14-A5 C14-A6 C14-A7 C14-A8 C14-B C14-B2 C15-A12 C15-A6 C15-A9 C16-A11 C16-B2 C17-B2 C18-A C18-A4 C18-A7 C18-B2; do
  cd /tmp/harm/H1 && git checkout -q -- . && git clean -fdq -e out
  if ! git apply /verif/seeded/$s/patch.diff 2>/dev/null; then echo "$s patch-does-not-apply"; continue; fi
  rm -rf /tmp/gen_seed; mkdir -p /tmp/gen_seed
  /tmp/extract_new -repo /tmp/harm/H1 -out /tmp/gen_seed > /tmp/gen_seed.log 2>&1
  F=$(grep -o 'FAILED \(NodeOps\|IterOps\|Loops\).lean' /tmp/gen_seed.log | tr '\n' ' ')
  if [ -n "$F" ]; then echo "$s translation-fails: $F"; continue; fi
  if cmp -s /tmp/gen_seed/NodeOps.lean /tmp/NodeOps.g && cmp -s /tmp/gen_seed/IterOps.lean /tmp/IterOps.g && cmp -s /tmp/gen_seed/Loops.lean /tmp/Loops.g; then echo "$s unchanged (outside the translated parts of tree.go)"; continue; fi
  cp /tmp/gen_seed/NodeOps.lean /tmp/gen_seed/IterOps.lean /tmp/gen_seed/Loops.lean /tmp/leandev/ArtVerif/Gen/
  cd /tmp/leandev
  if lake build ArtVerif.Props.C02NodeOps ArtVerif.Props.C05NodeOps ArtVerif.Props.C01Loops ArtVerif.Props.C03Loops ArtVerif.Props.C04Loops > /tmp/seedbuild.log 2>&1; then echo "$s PROOFS-STILL-PASS"; else echo "$s proof-fails: $(grep -m1 'error:' /tmp/seedbuild.log | cut -c1-120)"; fi
done
cp /tmp/NodeOps.g /tmp/leandev/ArtVerif/Gen/NodeOps.lean; cp /tmp/IterOps.g /tmp/leandev/ArtVerif/Gen/IterOps.lean; cp /tmp/Loops.g /tmp/leandev/ArtVerif/Gen/Loops.lean
cd /tmp/harm/H1 && git checkout -q -- .
