#!/bin/sh
# Development experiment, not a registered check (nothing in MANIFEST.json calls it).  Prerequisites it assumes:
#   /tmp/harm/H1      a scratch worktree of /repo        (git -C /repo worktree add --detach /tmp/harm/H1 HEAD)
#   /tmp/extract_new  the extractor                        (cd /verif/tools/extract && go build -o /tmp/extract_new .)
#   /tmp/leandev      a private copy of /verif/lean with its own .lake   (rsync -a /verif/lean/ /tmp/leandev/)
# Remove all three afterwards (git -C /repo worktree remove --force /tmp/harm/H1).
# for every stored seeded change that touches node.go: does the regenerated-node.go tie alone (translation + Proofs/GenNodeOps
# + Props/C1xNodeOps, no correspondence run) notice it?
cd /tmp/harm/H1 && git checkout -q -- . 
for s in C01-A C01-A2 C01-A4 C01-A8 C02-A5 C02-A8 C02-B2 C05-A4 C05-B2 C06-A2 C06-A3 C06-A5 C06-B C09-A C09-A3 C10-A C10-A10 C10-A2 C10-A3 C10-A6 C10-A8 C10-B C11-A C11-A10 C11-A2 C11-A4 C11-A5 C11-A7 C11-A8 C11-B C11-B2 C12-A C12-A10 C12-A5 C12-A7 C12-A8 C12-B C15-A3 C15-A7 C16-A2 C16-A6 C17-A10 C17-B; do
  cd /tmp/harm/H1 && git checkout -q -- . && git clean -fdq -e out
  if ! git apply /verif/seeded/$s/patch.diff 2>/dev/null; then echo "$s patch-does-not-apply"; continue; fi
  if ! git diff --name-only | grep -q '^node.go$'; then echo "$s not-node.go"; continue; fi
  rm -rf /tmp/gen_seed; mkdir -p /tmp/gen_seed
  /tmp/extract_new -repo /tmp/harm/H1 -out /tmp/gen_seed > /tmp/gen_seed.log 2>&1
  if grep -q 'FAILED NodeOps' /tmp/gen_seed.log; then echo "$s translation-fails: $(grep 'FAILED NodeOps' /tmp/gen_seed.log | cut -c1-160)"; continue; fi
  if cmp -s /tmp/gen_seed/NodeOps.lean /tmp/NodeOps.good; then echo "$s NodeOps-unchanged (the change is outside the translated methods)"; continue; fi
  cp /tmp/gen_seed/NodeOps.lean /tmp/leandev/ArtVerif/Gen/NodeOps.lean
  cd /tmp/leandev
  if lake build ArtVerif.Props.C10NodeOps ArtVerif.Props.C11NodeOps ArtVerif.Props.C12NodeOps > /tmp/seedbuild.log 2>&1; then echo "$s PROOFS-STILL-PASS"; else echo "$s proof-fails: $(grep -m1 'error:' /tmp/seedbuild.log | cut -c1-140)"; fi
done
cp /tmp/NodeOps.good /tmp/leandev/ArtVerif/Gen/NodeOps.lean
cd /tmp/harm/H1 && git checkout -q -- .
