#!/usr/bin/env python3
"""cross-detection matrix: applies every seeded change (in a side copy given by VERIF_REPO) and runs a set of quick checks,
not only the one of the property the change was written against; writes seeded/MATRIX.json {change: {check: D|-|T}}
(D = violation with a failing input, T = reported without one, - = quiet)"""
import json, os, subprocess, sys, glob, time
ROOT = os.path.dirname(os.path.dirname(os.path.abspath(__file__)))
ENV = dict(os.environ, GOFLAGS="-mod=mod", GOPROXY="off", VERIF_FAST="1")
REPO = os.environ.get("VERIF_REPO", "/repo")
CHECKS = sys.argv[1].split(",") if len(sys.argv) > 1 else ["C01", "C02", "C03", "C04", "C05", "C06", "C08", "C09", "C10", "C11", "C12", "C13", "C14", "C15"]

def sh(cmd, cwd=ROOT, timeout=3600):
    p = subprocess.run(cmd, cwd=cwd, env=ENV, stdout=subprocess.PIPE, stderr=subprocess.STDOUT, text=True, timeout=timeout)
    return p.returncode, p.stdout

out_path = os.path.join(ROOT, "seeded", "MATRIX.json")
M = json.load(open(out_path)) if os.path.exists(out_path) else {}
for d in sorted(glob.glob(os.path.join(ROOT, "seeded", "*", "meta.json"))):
    name = os.path.basename(os.path.dirname(d))
    if name in M:
        continue
    rc, o = sh(["git", "-C", REPO, "status", "--short"])
    assert not o.strip(), o
    row = {}
    try:
        rc, o = sh(["git", "-C", REPO, "apply", os.path.join(os.path.dirname(d), "patch.diff")])
        assert rc == 0, o
        for c in CHECKS:
            rc, o = sh(["./check", c, "--tier", "quick"])
            vio = [l for l in o.splitlines() if l.startswith("VIOLATION")]
            row[c] = "-" if rc == 0 else ("T" if vio and all("no-failing-input-found" in v for v in vio) else "D")
    finally:
        sh(["git", "-C", REPO, "checkout", "--", "."])
    M[name] = row
    json.dump(M, open(out_path, "w"), indent=0)
    print(name, "".join(row[c] for c in CHECKS), flush=True)
