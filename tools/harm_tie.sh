#!/bin/sh
# Development experiment, not a registered check (nothing in MANIFEST.json calls it).  Prerequisites it assumes:
#   /tmp/harm/H1      a scratch worktree of /repo        (git -C /repo worktree add --detach /tmp/harm/H1 HEAD)
#   /tmp/extract_new  the extractor                        (cd /verif/tools/extract && go build -o /tmp/extract_new .)
#   /tmp/leandev      a private copy of /verif/lean with its own .lake   (rsync -a /verif/lean/ /tmp/leandev/)
# Remove all three afterwards (git -C /repo worktree remove --force /tmp/harm/H1).
# the 16 behaviour-preserving changes against the regenerated ties alone (translation + proofs, no correspondence run)
mkdir -p /tmp/gen_keep; cp /tmp/leandev/ArtVerif/Gen/*.lean /tmp/gen_keep/
for h in H1-1 H1-2 H1-3 H1-4 H2-1 H2-2 H2-3 H2-4 H3-1 H3-2 H3-3 H3-4 H4-1 H4-2 H4-3 H4-4; do
  cd /tmp/harm/H1 && git checkout -q -- . && git clean -fdq -e out
  if ! git apply /verif/harmless/$h/patch.diff 2>/dev/null; then echo "$h patch-does-not-apply"; continue; fi
  rm -rf /tmp/gen_hh; mkdir -p /tmp/gen_hh
  /tmp/extract_new -repo /tmp/harm/H1 -out /tmp/gen_hh > /tmp/gen_hh.log 2>&1
  F=$(grep -o 'FAILED [A-Za-z0-9]*.lean' /tmp/gen_hh.log | tr '\n' ' ')
  D=""
  for f in /tmp/gen_hh/*.lean; do b=$(basename $f); cmp -s $f /tmp/gen_keep/$b || D="$D $b"; done
  if [ -z "$D" ]; then echo "$h every regenerated module is identical"; continue; fi
  cp /tmp/gen_hh/*.lean /tmp/leandev/ArtVerif/Gen/
  cd /tmp/leandev
  if lake build ArtVerif > /tmp/hbuild.log 2>&1; then echo "$h changed:$D -> all proofs still pass $F"; else echo "$h changed:$D -> FAILS: $(grep -m2 'error:' /tmp/hbuild.log | cut -c1-160 | tr '\n' ' ') $F"; fi
done
cp /tmp/gen_keep/*.lean /tmp/leandev/ArtVerif/Gen/
cd /tmp/harm/H1 && git checkout -q -- .
