package main

import (
	"bufio"
	"flag"
	"fmt"
	"os"
	"runtime/debug"
	"strings"
)

func main() {
	// a cycle in a damaged structure shows up as runaway recursion or allocation: fail fast instead of after a gigabyte
	debug.SetMaxStack(48 << 20)
	debug.SetMemoryLimit(6 << 30)
	mode := flag.String("mode", "tree", "tree | multi | replay | node | fn | codec | alias | mem | race | gc")
	seed := flag.Int64("seed", 1, "PRNG seed")
	fams := flag.String("families", strings.Join(families, ","), "kind families")
	hists := flag.Int("hists", 12, "histories per family")
	ops := flag.Int("ops", 300, "operations per history (mean)")
	profile := flag.String("profile", "mixed", "mixed | range | prefix")
	dumpAll := flag.Bool("dumpall", false, "dump after every mutating operation")
	check15 := flag.Bool("check15", false, "compare raw dumps around read-only / no-op calls")
	multi := flag.Int("multi", 4, "max live trees per group (multi mode)")
	maxKeys := flag.Int("maxkeys", 400, "soft bound on the number of keys per tree")
	out := flag.String("out", "-", "transcript file")
	stats := flag.String("stats", "", "stats json file")
	in := flag.String("in", "", "replay file")
	n := flag.Int("n", 1000, "volume parameter for node/fn/codec/mem/race/gc modes")
	sub := flag.String("sub", "", "sub-mode")
	mp := flag.Bool("multipass", false, "range over most sequence values several times")
	flag.Parse()
	multipass = *mp

	var w *bufio.Writer
	if *out == "-" {
		w = bufio.NewWriterSize(os.Stdout, 1<<20)
	} else {
		f, err := os.Create(*out)
		if err != nil {
			fmt.Fprintln(os.Stderr, err)
			os.Exit(2)
		}
		defer f.Close()
		w = bufio.NewWriterSize(f, 1<<20)
	}
	tr := &transcript{w: w, stats: map[string]int{}}
	cfg := treeRunCfg{seed: *seed, families: strings.Split(*fams, ","), hists: *hists, ops: *ops,
		profile: *profile, dumpAll: *dumpAll, check15: *check15, multi: *multi, maxKeys: *maxKeys}
	switch *mode {
	case "tree":
		runTreeMode(cfg, tr)
	case "multi":
		runMultiMode(cfg, tr)
	case "replay":
		s := newSession(tr)
		if err := replayFile(*in, s); err != nil {
			fmt.Fprintln(os.Stderr, err)
			os.Exit(2)
		}
	case "node":
		runNodeMode(*seed, *n, tr)
	case "fn":
		runFnMode(*seed, *n, *sub, tr)
	case "codec":
		runCodecMode(*seed, *n, *sub, tr)
	default:
		if !runExtraMode(*mode, *seed, *n, *sub, tr) {
			fmt.Fprintln(os.Stderr, "unknown mode", *mode)
			os.Exit(2)
		}
	}
	w.Flush()
	if *stats != "" {
		writeStats(tr, *stats)
	}
}
