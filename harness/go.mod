module artharness

go 1.24.0

require (
	github.com/Clement-Jean/go-art v0.0.0
	golang.org/x/text v0.23.0
)

replace github.com/Clement-Jean/go-art => /repo
