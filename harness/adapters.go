package main

// Adapters: one uniform, string-literal interface over every tree kind and key type
// the library offers. Key literals:
//   alpha/collation : hex of the original bytes ("-" = empty)
//   numeric         : hex of the bit pattern, fixed width; "nan" for any NaN
//   compound        : comma separated field literals
// Values are ints.

import (
	"encoding/binary"
	"encoding/hex"
	"fmt"
	"math"
	"math/bits"
	"strconv"
	"strings"

	art "github.com/Clement-Jean/go-art"
	"golang.org/x/text/collate"
	"golang.org/x/text/language"
)

type kv struct {
	k string
	v int
}

type drvTree interface {
	Insert(lit string, v int)
	Delete(lit string) bool
	Get(lit string) (int, bool)
	Min() (string, int, bool)
	Max() (string, int, bool)
	Size() int
	// Seq builds the sequence value once and ranges over it `passes` times, answering false on
	// the stop-th element (0 = never). Returns the yielded pairs per pass and the number of callbacks
	// received after a false.
	Seq(sel []string, stop, passes int) ([][]kv, int)
	// SeqHook makes one complete pass and calls hook(i) from inside the loop body before taking the i-th pair
	SeqHook(sel []string, hook func(i int)) []kv
	NestSelf(sel []string) (outer, inner []kv)
	Dump() string
	// TranscriptLit turns a generator literal into what the Lean driver needs (adds the sort key
	// for collation trees).
	TranscriptLit(lit string) string
	KindSpec() string
	Raw() any
}

func hexLit(b []byte) string {
	if len(b) == 0 {
		return "-"
	}
	return hex.EncodeToString(b)
}

func unhex(lit string) []byte {
	if lit == "-" {
		return []byte{}
	}
	b, err := hex.DecodeString(lit)
	if err != nil {
		panic("bad hex literal " + lit)
	}
	return b
}

type adapter[K any] struct {
	t      art.Tree[K, int]
	parse  func(string) K
	render func(K) string
	spec   string
	tlit   func(string) string
	// the literal of the last key this tree was called with: looked up again between the passes over a sequence and
	// after Minimum/Maximum, while the keys handed out so far are still held (read-only calls must not matter)
	last    string
	hasLast bool
}

func (a *adapter[K]) note(lit string) { a.last, a.hasLast = lit, true }

// poke performs read-only calls whose results are discarded; a panic in them is not this call's business
func (a *adapter[K]) poke() {
	defer func() { _ = recover() }()
	if a.hasLast {
		a.t.Search(a.parse(a.last))
	}
	a.t.Minimum()
	a.t.Maximum()
}

func (a *adapter[K]) Insert(lit string, v int)   { a.note(lit); a.t.Insert(a.parse(lit), v) }
func (a *adapter[K]) Delete(lit string) bool     { a.note(lit); return a.t.Delete(a.parse(lit)) }
func (a *adapter[K]) Get(lit string) (int, bool) { return a.t.Search(a.parse(lit)) } // no note: readers may run concurrently
func (a *adapter[K]) Min() (string, int, bool) {
	k, v, ok := a.t.Minimum()
	if !ok {
		return "", 0, false
	}
	a.poke() // the key handed out is the caller's: later calls must not alter it
	return a.render(k), v, true
}
func (a *adapter[K]) Max() (string, int, bool) {
	k, v, ok := a.t.Maximum()
	if !ok {
		return "", 0, false
	}
	a.poke()
	return a.render(k), v, true
}
func (a *adapter[K]) Size() int        { return a.t.Size() }
func (a *adapter[K]) Dump() string     { return art.VerifDump(a.t) }
func (a *adapter[K]) KindSpec() string { return a.spec }
func (a *adapter[K]) Raw() any         { return a.t }
func (a *adapter[K]) TranscriptLit(lit string) string {
	if a.tlit != nil {
		return a.tlit(lit)
	}
	return lit
}

func (a *adapter[K]) SeqHook(sel []string, hook func(i int)) []kv {
	var keys []K
	var vals []int
	i := 0
	a.mkSeq(sel)(func(k K, v int) bool {
		hook(i)
		i++
		keys, vals = append(keys, k), append(vals, v)
		return true
	})
	got := make([]kv, len(keys))
	for j := range keys {
		got[j] = kv{a.render(keys[j]), vals[j]}
	}
	return got
}

// NestSelf ranges over ONE sequence value from inside the loop body of a pass over that same value (the all-pairs
// idiom); both the outer and the inner pass must be complete.
func (a *adapter[K]) NestSelf(sel []string) (outer, inner []kv) {
	seq := a.mkSeq(sel)
	first := true
	seq(func(k K, v int) bool {
		outer = append(outer, kv{a.render(k), v})
		if first {
			first = false
			seq(func(k2 K, v2 int) bool {
				inner = append(inner, kv{a.render(k2), v2})
				return true
			})
		}
		return true
	})
	if first {
		// an empty sequence has no loop body to nest in: the second pass runs afterwards
		seq(func(k2 K, v2 int) bool {
			inner = append(inner, kv{a.render(k2), v2})
			return true
		})
	}
	return outer, inner
}

func (a *adapter[K]) Seq(sel []string, stop, passes int) ([][]kv, int) {
	seq := a.mkSeq(sel)
	return a.runSeq(seq, stop, passes)
}

func (a *adapter[K]) mkSeq(sel []string) func(func(K, int) bool) {
	var seq func(func(K, int) bool)
	switch sel[0] {
	case "all":
		seq = a.t.All()
	case "back":
		seq = a.t.Backward()
	case "topk":
		n, _ := strconv.ParseUint(sel[1], 10, 64)
		seq = a.t.TopK(uint(n))
	case "botk":
		n, _ := strconv.ParseUint(sel[1], 10, 64)
		seq = a.t.BottomK(uint(n))
	case "range":
		seq = a.t.Range(a.parse(sel[1]), a.parse(sel[2]))
	case "rangeopen":
		seq = a.t.Range(a.parse(sel[1]), a.parse("-"))
	case "prefix":
		seq = a.t.Prefix(a.parse(sel[1]))
	default:
		panic("bad selector " + sel[0])
	}
	return seq
}

func (a *adapter[K]) runSeq(seq func(func(K, int) bool), stop, passes int) ([][]kv, int) {
	// the keys handed out are kept as they are (the way a caller collects them into a slice) and read only after
	// every pass is over, with read-only calls on the same tree between the passes
	type raw struct {
		k K
		v int
	}
	var held [][]raw
	late := 0
	for p := 0; p < passes; p++ {
		if p > 0 {
			a.poke()
		}
		var got []raw
		stopped := false
		// with several passes over the same sequence value, abandoned passes (even) alternate with complete ones (odd)
		stop := stop
		if p%2 == 1 {
			stop = 0
		}
		seq(func(k K, v int) bool {
			if stopped {
				late++
				return false
			}
			got = append(got, raw{k, v})
			if stop != 0 && len(got) == stop {
				stopped = true
				return false
			}
			return true
		})
		held = append(held, got)
	}
	if passes > 0 {
		a.poke()
	}
	out := make([][]kv, len(held))
	for i, got := range held {
		out[i] = make([]kv, len(got))
		for j, e := range got {
			out[i][j] = kv{a.render(e.k), e.v}
		}
	}
	return out, late
}

// ---- numeric literals ------------------------------------------------------------------

func parseBits(lit string, width int) uint64 {
	if lit == "nan" {
		if width == 32 {
			return 0x7FC00000
		}
		return 0x7FF8000000000001
	}
	v, err := strconv.ParseUint(lit, 16, 64)
	if err != nil {
		panic("bad numeric literal " + lit)
	}
	return v
}

func bitsLit(v uint64, width int) string { return fmt.Sprintf("%0*x", width/4, v) }

func f32Lit(f float32) string {
	if f != f {
		return "nan"
	}
	return bitsLit(uint64(math.Float32bits(f)), 32)
}
func f64Lit(f float64) string {
	if f != f {
		return "nan"
	}
	return bitsLit(math.Float64bits(f), 64)
}

func newUnsigned[K interface {
	uint | uint64 | uint32 | uint16 | uint8
}](width int, name string) drvTree {
	return &adapter[K]{
		t:      art.NewUnsignedBinaryTree[K, int](),
		parse:  func(l string) K { return K(parseBits(l, width)) },
		render: func(k K) string { return bitsLit(uint64(k), width) },
		spec:   "num " + name,
	}
}

func newSigned[K interface {
	int | int64 | int32 | int16 | int8
}](width int, name string) drvTree {
	mask := uint64(1)<<uint(width) - 1
	if width == 64 {
		mask = ^uint64(0)
	}
	return &adapter[K]{
		t: art.NewSignedBinaryTree[K, int](),
		parse: func(l string) K {
			v := parseBits(l, width)
			// sign-extend from width
			sh := uint(64 - width)
			return K(int64(v<<sh) >> sh)
		},
		render: func(k K) string { return bitsLit(uint64(int64(k))&mask, width) },
		spec:   "num " + name,
	}
}

// ---- compound ---------------------------------------------------------------------------

// schemaCodec assembles a BinaryComparableKey[string] from the library's exported numeric key
// types, field by field; the key type is the tuple literal itself.
type schemaCodec struct{ fields []string }

func encField(f, lit string) []byte {
	switch f {
	case "u8":
		_, b := art.UnsignedBinaryKey[uint8]{}.Transform(uint8(parseBits(lit, 8)))
		return b
	case "u16":
		_, b := art.UnsignedBinaryKey[uint16]{}.Transform(uint16(parseBits(lit, 16)))
		return b
	case "u32":
		_, b := art.UnsignedBinaryKey[uint32]{}.Transform(uint32(parseBits(lit, 32)))
		return b
	case "u64":
		_, b := art.UnsignedBinaryKey[uint64]{}.Transform(parseBits(lit, 64))
		return b
	case "i8":
		_, b := art.SignedBinaryKey[int8]{}.Transform(int8(parseBits(lit, 8)))
		return b
	case "i16":
		_, b := art.SignedBinaryKey[int16]{}.Transform(int16(parseBits(lit, 16)))
		return b
	case "i32":
		_, b := art.SignedBinaryKey[int32]{}.Transform(int32(parseBits(lit, 32)))
		return b
	case "i64":
		_, b := art.SignedBinaryKey[int64]{}.Transform(int64(parseBits(lit, 64)))
		return b
	case "f32":
		_, b := art.FloatBinaryKey[float32]{}.Transform(math.Float32frombits(uint32(parseBits(lit, 32))))
		return b
	case "f64":
		_, b := art.FloatBinaryKey[float64]{}.Transform(math.Float64frombits(parseBits(lit, 64)))
		return b
	case "s":
		return append(append([]byte{}, unhex(lit)...), 0)
	case "r": // a trailing field written as it is (no terminator), like the name in the library's own Account example
		return append([]byte{}, unhex(lit)...)
	}
	panic("bad field " + f)
}

func fieldWidth(f string) int {
	switch f {
	case "u8", "i8":
		return 1
	case "u16", "i16":
		return 2
	case "u32", "i32", "f32":
		return 4
	case "u64", "i64", "f64":
		return 8
	}
	return -1
}

func decField(f string, b []byte) string {
	switch f {
	case "u8":
		return bitsLit(uint64(art.UnsignedBinaryKey[uint8]{}.Restore(b)), 8)
	case "u16":
		return bitsLit(uint64(art.UnsignedBinaryKey[uint16]{}.Restore(b)), 16)
	case "u32":
		return bitsLit(uint64(art.UnsignedBinaryKey[uint32]{}.Restore(b)), 32)
	case "u64":
		return bitsLit(art.UnsignedBinaryKey[uint64]{}.Restore(b), 64)
	case "i8":
		return bitsLit(uint64(uint8(art.SignedBinaryKey[int8]{}.Restore(b))), 8)
	case "i16":
		return bitsLit(uint64(uint16(art.SignedBinaryKey[int16]{}.Restore(b))), 16)
	case "i32":
		return bitsLit(uint64(uint32(art.SignedBinaryKey[int32]{}.Restore(b))), 32)
	case "i64":
		return bitsLit(uint64(art.SignedBinaryKey[int64]{}.Restore(b)), 64)
	case "f32":
		return f32Lit(art.FloatBinaryKey[float32]{}.Restore(b))
	case "f64":
		return f64Lit(art.FloatBinaryKey[float64]{}.Restore(b))
	case "s":
		return hexLit(b[:len(b)-1])
	case "r":
		return hexLit(b)
	}
	panic("bad field " + f)
}

func (c schemaCodec) Transform(k string) ([]byte, []byte) {
	parts := strings.Split(k, ",")
	// the obvious way to concatenate: append the later fields onto the slice the first codec returned
	out := encField(c.fields[0], parts[0])
	for i, f := range c.fields[1:] {
		out = append(out, encField(f, parts[i+1])...)
	}
	return out, out
}

func (c schemaCodec) Restore(b []byte) string {
	var parts []string
	for _, f := range c.fields {
		w := fieldWidth(f)
		if w < 0 {
			parts = append(parts, decField(f, b))
			b = nil
			continue
		}
		parts = append(parts, decField(f, b[:w]))
		b = b[w:]
	}
	return strings.Join(parts, ",")
}

func canonTuple(fields []string, lit string) string {
	parts := strings.Split(lit, ",")
	for i, f := range fields {
		if f == "f32" && math.IsNaN(float64(math.Float32frombits(uint32(parseBits(parts[i], 32))))) {
			parts[i] = "nan"
		}
		if f == "f64" && math.IsNaN(math.Float64frombits(parseBits(parts[i], 64))) {
			parts[i] = "nan"
		}
	}
	return strings.Join(parts, ",")
}

// ---- collation --------------------------------------------------------------------------

type collCfg struct {
	name string
	tag  language.Tag
	opts []collate.Option
}

var collCfgs = []collCfg{
	{"root", language.Und, nil},
	{"en", language.English, nil},
	{"de", language.German, nil},
	{"sv", language.Swedish, nil},
	{"ja", language.Japanese, nil},
	{"numeric", language.Und, []collate.Option{collate.Numeric}},
	{"ignorecase", language.Und, []collate.Option{collate.IgnoreCase}},
	{"ignorediacritics", language.Und, []collate.Option{collate.IgnoreDiacritics}},
	{"loose", language.Und, []collate.Option{collate.Loose}},
}

func collByName(name string) collCfg {
	for _, c := range collCfgs {
		if c.name == name {
			return c
		}
	}
	panic("unknown collator " + name)
}

// ---- construction -----------------------------------------------------------------------

// newTree builds a tree from a spec string: "alpha string", "alpha bytes", "num u16", "num uint",
// "coll string root", "coll bytes loose", "coll runes", "comp u16,i32,s".
func newTree(spec string) drvTree {
	f := strings.Fields(spec)
	switch f[0] {
	case "alpha":
		if f[1] == "string" {
			return &adapter[string]{
				t:      art.NewAlphaSortedTree[string, int](),
				parse:  func(l string) string { return string(unhex(l)) },
				render: func(k string) string { return hexLit([]byte(k)) },
				spec:   "alpha",
			}
		}
		return &adapter[[]byte]{
			t:      art.NewAlphaSortedTree[[]byte, int](),
			parse:  func(l string) []byte { return unhex(l) },
			render: func(k []byte) string { return hexLit(k) },
			spec:   "alpha",
		}
	case "num":
		switch f[1] {
		case "u8":
			return newUnsigned[uint8](8, "u8")
		case "u16":
			return newUnsigned[uint16](16, "u16")
		case "u32":
			return newUnsigned[uint32](32, "u32")
		case "u64":
			return newUnsigned[uint64](64, "u64")
		case "uint":
			return newUnsigned[uint](bits.UintSize, fmt.Sprintf("u%d", bits.UintSize))
		case "i8":
			return newSigned[int8](8, "i8")
		case "i16":
			return newSigned[int16](16, "i16")
		case "i32":
			return newSigned[int32](32, "i32")
		case "i64":
			return newSigned[int64](64, "i64")
		case "int":
			return newSigned[int](bits.UintSize, fmt.Sprintf("i%d", bits.UintSize))
		case "f32":
			return &adapter[float32]{
				t:      art.NewFloatBinaryTree[float32, int](),
				parse:  func(l string) float32 { return math.Float32frombits(uint32(parseBits(l, 32))) },
				render: f32Lit,
				spec:   "num f32",
				tlit:   func(l string) string { return canonNum("f32", l) },
			}
		case "f64":
			return &adapter[float64]{
				t:      art.NewFloatBinaryTree[float64, int](),
				parse:  func(l string) float64 { return math.Float64frombits(parseBits(l, 64)) },
				render: f64Lit,
				spec:   "num f64",
				tlit:   func(l string) string { return canonNum("f64", l) },
			}
		}
	case "comp":
		fields := strings.Split(f[1], ",")
		c := schemaCodec{fields}
		return &adapter[string]{
			t:      art.NewCompoundTree[string, int](c),
			parse:  func(l string) string { return l },
			render: func(k string) string { return k },
			spec:   "comp " + f[1],
			tlit:   func(l string) string { return canonTuple(fields, l) },
		}
	case "coll":
		cname := "root"
		if len(f) > 2 {
			cname = f[2]
		}
		cfg := collByName(cname)
		own := collate.New(cfg.tag, cfg.opts...) // the harness's own collator for the transcript
		var buf collate.Buffer
		tlit := func(l string) string {
			buf.Reset()
			return l + ":" + hexLit(own.Key(&buf, unhex(l)))
		}
		switch f[1] {
		case "string":
			var t art.Tree[string, int]
			if cname == "root" {
				t = art.NewCollationSortedTree[string, int]()
			} else {
				t = art.NewCollationSortedTree[string, int](art.WithCollator[string, int](collate.New(cfg.tag, cfg.opts...)))
			}
			return &adapter[string]{t: t,
				parse:  func(l string) string { return string(unhex(l)) },
				render: func(k string) string { return hexLit([]byte(k)) },
				spec:   "coll", tlit: tlit}
		case "bytes":
			var t art.Tree[[]byte, int]
			if cname == "root" {
				t = art.NewCollationSortedTree[[]byte, int]()
			} else {
				t = art.NewCollationSortedTree[[]byte, int](art.WithCollator[[]byte, int](collate.New(cfg.tag, cfg.opts...)))
			}
			return &adapter[[]byte]{t: t,
				parse:  func(l string) []byte { return unhex(l) },
				render: func(k []byte) string { return hexLit(k) },
				spec:   "coll", tlit: tlit}
		case "runes":
			return &adapter[[]rune]{t: art.NewCollationSortedTree[[]rune, int](),
				parse:  func(l string) []rune { return []rune(string(unhex(l))) },
				render: func(k []rune) string { return hexLit([]byte(string(k))) },
				spec:   "coll", tlit: tlit}
		}
	}
	panic("bad tree spec: " + spec)
}

// collCompare reports the collator's verdict on two literals (used to keep histories inside C08's proviso).
func collCompare(cname, a, b string) int {
	cfg := collByName(cname)
	return collate.New(cfg.tag, cfg.opts...).Compare(unhex(a), unhex(b))
}

var _ = binary.BigEndian
