package main

// Runtime-flavoured legs: caller-buffer aliasing (C13), retained heap (C17), goroutines under the race
// detector (C16), aggressive GC + checkptr (C18).  They emit ordinary transcript lines wherever the Lean
// driver can judge the result, and `assert … => ok|<what failed>` lines for Go-side observations.

import (
	"bufio"
	"bytes"
	"fmt"
	"golang.org/x/text/collate"
	"golang.org/x/text/language"
	"math"
	"math/bits"
	"math/rand"
	"reflect"
	"runtime"
	"runtime/debug"
	"sort"
	"strconv"
	"strings"
	"sync"
	"sync/atomic"
	"unsafe"

	art "github.com/Clement-Jean/go-art"
)

func runExtraMode(mode string, seed int64, n int, sub string, tr *transcript) bool {
	switch mode {
	case "alias":
		runAliasMode(seed, n, tr)
	case "mem":
		runMemMode(seed, n, sub, tr)
	case "race":
		runRaceMode(seed, n, tr)
	case "gc":
		runGCMode(seed, n, tr)
	default:
		return false
	}
	return true
}

// ---- C13 ---------------------------------------------------------------------------------------

// callerBuf is a caller-owned array holding a key in the middle, with live caller data around it.
type callerBuf struct {
	arr      []byte // the whole backing array
	off, n   int
	capLimit int // capacity handed to the library (>= n)
	snapshot []byte
}

func newCallerBuf(r *rand.Rand, key []byte, style int) *callerBuf {
	pre, post := 0, 0
	switch style {
	case 0: // exactly full
	case 1: // sub-slice with spare capacity holding live data
		pre, post = r.Intn(4), 1+r.Intn(8)
	case 2: // large scanner-style buffer
		pre, post = 0, 64
	}
	arr := make([]byte, pre+len(key)+post)
	for i := range arr {
		arr[i] = byte(0xA0 + i%16) // canaries, never 0
	}
	copy(arr[pre:], key)
	b := &callerBuf{arr: arr, off: pre, n: len(key), capLimit: len(key) + post}
	b.snapshot = append([]byte{}, arr...)
	return b
}

func (b *callerBuf) key() []byte  { return b.arr[b.off : b.off+b.n : b.off+b.capLimit] }
func (b *callerBuf) intact() bool { return bytes.Equal(b.arr, b.snapshot) }
func (b *callerBuf) scribble() {
	for i := range b.arr {
		b.arr[i] = 0x55
	}
}

//go:noinline
func peek(p *byte) byte { return *p }

// aliasTransient: while one goroutine makes read-only calls with a key cut from a larger buffer, another keeps looking at
// the bytes of that buffer – the key itself and what lies behind it. A write that is undone before the call returns
// (invisible to a before/after comparison) is seen here, and reported by the race detector in builds that have it.
func aliasTransient(tr *transcript, r *rand.Rand) {
	for _, spec := range []string{"alpha bytes", "coll bytes root"} {
		t := newTree(spec)
		raw := t.Raw().(art.Tree[[]byte, int])
		keys := []string{"token", "tokens", "tokenize", "toward", "zebra", strings.Repeat("k", 70)}
		for i, k := range keys {
			raw.Insert([]byte(k), i)
		}
		for _, probe := range []string{"token", "tokenizer", strings.Repeat("k", 70), "absent"} {
			arr := make([]byte, len(probe)+16)
			for i := range arr {
				arr[i] = 0xEE
			}
			copy(arr, probe)
			want := append([]byte{}, arr...)
			key := arr[:len(probe):len(arr)]
			var stop, seen atomic.Int64
			done := make(chan struct{})
			go func() {
				defer close(done)
				for stop.Load() == 0 {
					for i := range arr {
						if peek(&arr[i]) != want[i] {
							seen.Add(1)
						}
					}
				}
			}()
			fault := ""
			func() {
				defer func() {
					if rec := recover(); rec != nil {
						fault = "PANIC:" + strings.ReplaceAll(fmt.Sprint(rec), " ", "_")
					}
				}()
				for i := 0; i < 6000; i++ {
					raw.Search(key)
					for range raw.Prefix(key) {
						break
					}
					for range raw.Range(key, key) {
						break
					}
					if probe == "absent" || probe == "tokenizer" {
						raw.Delete(key)
					}
				}
			}()
			stop.Store(1)
			<-done
			name := fmt.Sprintf("assert 0 caller-buffer-never-seen-modified-during-read-only-calls/%s/len=%d", strings.ReplaceAll(spec, " ", "_"), len(probe))
			switch {
			case fault != "":
				tr.emit(name, fault)
			case seen.Load() > 0:
				tr.emit(name, fmt.Sprintf("a-concurrent-reader-saw-%d-foreign-bytes", seen.Load()))
			default:
				tr.emit(name, "ok")
			}
			tr.stats["alias-transient-watches"]++
		}
	}
}

func runAliasMode(seed int64, n int, tr *transcript) {
	r := rand.New(rand.NewSource(seed))
	aliasTransient(tr, r)
	type variant struct {
		spec string
		mk   func() (drvTree, func(k []byte) any)
	}
	id := 0
	for round := 0; round < n; round++ {
		for _, spec := range []string{"alpha bytes", "coll bytes root", "coll bytes loose"} {
			id++
			t := newTree(spec)
			tr.emit(fmt.Sprintf("new %d %s", id, t.KindSpec()), "ok")
			tr.comment(fmt.Sprintf("treespec %d %s", id, spec))
			raw := t.Raw().(art.Tree[[]byte, int])
			isAlpha := strings.HasPrefix(spec, "alpha")
			unis := alphaUniverses()
			if !isAlpha {
				unis = collUniverses()
			}
			u := pick(r, unis)
			present := map[string]int{}
			var bufs []*callerBuf
			scan := make([]byte, 48)
			violated := func(what string, b *callerBuf) {
				tr.emit(fmt.Sprintf("assert %d caller-buffer-unchanged-by-%s", id, what),
					fmt.Sprintf("modified:before=%x:after=%x:key-at=%d+%d", b.snapshot, b.arr, b.off, b.n))
			}
			// fixed-width records read into ONE buffer: consecutive calls get the same address and the same length with
			// different contents (whatever the tree remembers about "the last key" by reference is wrong here)
			{
				rec := make([]byte, 4, 16)
				var stored []string
				for j := 0; j < 14; j++ {
					w := string(randBytes(r, []byte("abcd"), 4, 4))
					copy(rec, w)
					wl := hexLit([]byte(w))
					wt := t.TranscriptLit(wl)
					switch {
					case j%3 == 0 || len(stored) == 0:
						v := 1000 + j
						out := safely(func() string { raw.Insert(rec, v); return "ok" })
						tr.emit(fmt.Sprintf("ins %d %s %d", id, wt, v), out)
						if _, ok := present[wl]; !ok {
							stored = append(stored, w)
						}
						present[wl] = v
					case j%3 == 1:
						out := safely(func() string {
							if v, ok := raw.Search(rec); ok {
								return strconv.Itoa(v)
							}
							return "-"
						})
						tr.emit(fmt.Sprintf("get %d %s", id, wt), out)
					default:
						// delete a stored record, again through the same buffer
						w = stored[r.Intn(len(stored))]
						copy(rec, w)
						wl = hexLit([]byte(w))
						out := safely(func() string {
							if raw.Delete(rec) {
								return "1"
							}
							return "0"
						})
						tr.emit(fmt.Sprintf("del %d %s", id, t.TranscriptLit(wl)), out)
						delete(present, wl)
						for x, sw := range stored {
							if sw == w {
								stored = append(stored[:x], stored[x+1:]...)
								break
							}
						}
					}
				}
				tr.stats["alias-fixed-width-records"]++
			}
			for step := 0; step < 60; step++ {
				lit := u.next(r)
				if r.Intn(4) == 0 {
					// keys around the sizes where small-buffer optimisations change path (2^6, 2^8)
					tail := bytes.Repeat([]byte{'k'}, pick(r, []int{50, 62, 63, 64, 65, 100, 255, 256, 300}))
					lit = hexLit(append(unhex(lit), tail...))
					tr.stats["alias-long-keys"]++
				}
				if len(present) > 0 && r.Intn(3) == 0 {
					for k := range present {
						lit = k
						break
					}
				}
				key := unhex(lit)
				if bytes.IndexByte(key, 0) >= 0 {
					continue
				}
				if !isAlpha {
					// C08's proviso
					skip := false
					for p := range present {
						if p != lit && collCompare(strings.Fields(spec)[2], p, lit) == 0 {
							skip = true
						}
					}
					if skip {
						continue
					}
				}
				b := newCallerBuf(r, key, r.Intn(3))
				if r.Intn(2) == 0 && len(key) <= len(scan) {
					// the scanner idiom proper: ONE zero-initialised buffer, refilled in place for key after key, so that
					// consecutive calls see the same address (often the same length) with different contents, and
					// whatever follows the key is either 0x00 or the tail of an earlier key
					copy(scan, key)
					b = &callerBuf{arr: scan, off: 0, n: len(key), capLimit: len(scan), snapshot: append([]byte{}, scan...)}
					tr.stats["alias-scan-buffer-calls"]++
				}
				tl := t.TranscriptLit(lit)
				switch op := r.Intn(7); op {
				case 0, 1: // Insert, then the caller reuses the buffer
					v := step + 1
					out := safely(func() string { raw.Insert(b.key(), v); return "ok" })
					tr.emit(fmt.Sprintf("ins %d %s %d", id, tl, v), out)
					if out == "PANIC" {
						goto nextTree
					}
					present[lit] = v
					if !b.intact() {
						violated("Insert", b)
					}
					bufs = append(bufs, b)
					if r.Intn(2) == 0 {
						b.scribble() // the scanner idiom: the buffer now holds something else
						tr.stats["alias-scribbles"]++
					}
				case 6: // the pop-min idiom: a key handed out by the tree is deleted, something else is inserted, and the
					// caller goes on using (and then reusing) the key it was given
					var k []byte
					if r.Intn(2) == 0 {
						k, _, _ = raw.Minimum()
					} else {
						k, _, _ = raw.Maximum()
					}
					if k == nil || !isAlpha && len(present) == 0 {
						continue
					}
					keep := append([]byte{}, k...)
					klit := hexLit(keep)
					if _, ok := present[klit]; !ok {
						continue
					}
					out := safely(func() string {
						if raw.Delete(k) {
							return "1"
						}
						return "0"
					})
					tr.emit(fmt.Sprintf("del %d %s", id, t.TranscriptLit(klit)), out)
					delete(present, klit)
					v := step + 1
					out = safely(func() string { raw.Insert(b.key(), v); return "ok" })
					tr.emit(fmt.Sprintf("ins %d %s %d", id, tl, v), out)
					if out == "PANIC" {
						goto nextTree
					}
					present[lit] = v
					if !bytes.Equal(k, keep) {
						tr.emit(fmt.Sprintf("assert %d key-handed-out-then-deleted-stays-as-it-was", id), fmt.Sprintf("was=%x,is=%x", keep, k))
					}
					for i := range k {
						k[i] = 'X' // the caller reuses what it was given
					}
					tr.stats["alias-pop-idiom"]++
				case 2:
					out := safely(func() string {
						if v, ok := raw.Search(b.key()); ok {
							return strconv.Itoa(v)
						}
						return "-"
					})
					tr.emit(fmt.Sprintf("get %d %s", id, tl), out)
					if !b.intact() {
						violated("Search", b)
					}
				case 3:
					out := safely(func() string {
						if raw.Delete(b.key()) {
							return "1"
						}
						return "0"
					})
					tr.emit(fmt.Sprintf("del %d %s", id, tl), out)
					delete(present, lit)
					if !b.intact() {
						violated("Delete", b)
					}
				case 4:
					if len(key) == 0 {
						continue
					}
					pb := newCallerBuf(r, key[:1+r.Intn(len(key))], r.Intn(3))
					var got []kv
					plit := hexLit(pb.arr[pb.off : pb.off+pb.n])
					late := r.Intn(2) == 0
					out := safely(func() string {
						seq := raw.Prefix(pb.key())
						if late {
							// the call has returned: the caller refills the buffer before ranging over the sequence
							if !pb.intact() {
								violated("Prefix", pb)
							}
							pb.scribble()
							pb.snapshot = append([]byte{}, pb.arr...)
							tr.stats["alias-sequence-ranged-after-buffer-reuse"]++
						}
						for k, v := range seq {
							got = append(got, kv{hexLit(k), v})
						}
						return renderKVs(got)
					})
					tr.emit(fmt.Sprintf("seq %d prefix %s 0 1", id, plit), out)
					if !pb.intact() {
						violated("Prefix", pb)
					}
				case 5:
					if !isAlpha && len(key) != 0 {
						// Range on a collation tree is outside C03 (no specification of what it returns), but C13 still
						// applies: what the sequence yields must not depend on what the caller does with the bound
						// buffers after Range has returned.  The same bounds, once consumed at once from private copies
						// and once consumed after the caller refilled its buffers.
						key2 := unhex(u.next(r))
						if len(key2) == 0 {
							continue
						}
						collect := func(seq func(func([]byte, int) bool)) string {
							var got []kv
							for k, v := range seq {
								got = append(got, kv{hexLit(k), v})
							}
							return renderKVs(got)
						}
						ref := safely(func() string {
							return collect(raw.Range(append([]byte{}, key...), append([]byte{}, key2...)))
						})
						b2 := newCallerBuf(r, key2, r.Intn(3))
						out := safely(func() string {
							seq := raw.Range(b.key(), b2.key())
							if !b.intact() {
								violated("Range", b)
							}
							if !b2.intact() {
								violated("Range", b2)
							}
							b.scribble()
							b2.scribble()
							b.snapshot, b2.snapshot = append([]byte{}, b.arr...), append([]byte{}, b2.arr...)
							return collect(seq)
						})
						tr.stats["alias-collation-range-after-buffer-reuse"]++
						res := "ok"
						if out != ref {
							res = fmt.Sprintf("differs:bounds=%x..%x:consumed-at-once=%s:consumed-after-the-bound-buffers-were-refilled=%s", key, key2, ref, out)
						}
						tr.emit(fmt.Sprintf("assert %d range-sequence-independent-of-later-writes-to-the-bound-buffers", id), res)
						if !b.intact() {
							violated("Range", b)
						}
						if !b2.intact() {
							violated("Range", b2)
						}
						continue
					}
					if !isAlpha || len(key) == 0 {
						continue
					}
					lit2 := u.next(r)
					key2 := unhex(lit2)
					if len(key2) == 0 || bytes.IndexByte(key2, 0) >= 0 {
						continue
					}
					b2 := newCallerBuf(r, key2, r.Intn(3))
					ka, kb := b.key(), b2.key()
					switch r.Intn(4) {
					case 3: // a point range: both bounds spell one stored key (two buffers, or one buffer passed twice)
						var stored [][]byte
						safely(func() string {
							for k := range raw.All() {
								stored = append(stored, append([]byte{}, k...))
								if len(stored) >= 8 {
									break
								}
							}
							return ""
						})
						if len(stored) > 0 {
							key = stored[r.Intn(len(stored))]
							key2 = key
							lit, lit2 = hexLit(key), hexLit(key)
							b = newCallerBuf(r, key, r.Intn(3))
							b2 = newCallerBuf(r, key, r.Intn(3))
							ka, kb = b.key(), b2.key()
							if r.Intn(2) == 0 {
								b2 = b
								kb = ka
							}
							tr.stats["alias-range-point-bounds"]++
						}
					case 1: // both bounds cut from one request buffer, back to back
						req := append(append([]byte{}, key...), key2...)
						b = &callerBuf{arr: req, off: 0, n: len(key), capLimit: len(req), snapshot: append([]byte{}, req...)}
						b2 = &callerBuf{arr: req, off: len(key), n: len(key2), capLimit: len(key2), snapshot: append([]byte{}, req...)}
						ka, kb = req[:len(key)], req[len(key):]
						tr.stats["alias-range-adjacent-bounds"]++
					case 2: // one bound is a prefix slice of the other bound's buffer
						if len(key2) > 1 {
							cut := 1 + r.Intn(len(key2)-1)
							lit, key = hexLit(key2[:cut]), key2[:cut]
							buf := append([]byte{}, key2...)
							b = &callerBuf{arr: buf, off: 0, n: cut, capLimit: len(buf), snapshot: append([]byte{}, buf...)}
							b2 = &callerBuf{arr: buf, off: 0, n: len(buf), capLimit: len(buf), snapshot: append([]byte{}, buf...)}
							ka, kb = buf[:cut], buf
							if r.Intn(2) == 0 {
								ka, kb = kb, ka
								lit, lit2 = lit2, lit
							}
							tr.stats["alias-range-prefix-bounds"]++
						}
					}
					var got []kv
					late := r.Intn(2) == 0
					out := safely(func() string {
						seq := raw.Range(ka, kb)
						if late {
							// the call has returned: the caller refills both buffers before ranging over the sequence
							if !b.intact() {
								violated("Range", b)
							}
							if !b2.intact() {
								violated("Range", b2)
							}
							b.scribble()
							b2.scribble()
							b.snapshot, b2.snapshot = append([]byte{}, b.arr...), append([]byte{}, b2.arr...)
							tr.stats["alias-sequence-ranged-after-buffer-reuse"]++
						}
						for k, v := range seq {
							got = append(got, kv{hexLit(k), v})
						}
						return renderKVs(got)
					})
					if len(kb) == 0 {
						// an empty end bound means "up to the largest stored key" for byte strings (also when the start is
						// empty too): judged as the open-ended range it is
						tr.emit(fmt.Sprintf("seq %d rangeopen %s 0 1", id, lit), out)
					} else {
						tr.emit(fmt.Sprintf("seq %d range %s %s 0 1", id, lit, lit2), out)
					}
					if !b.intact() {
						violated("Range", b)
					}
					if !b2.intact() {
						violated("Range", b2)
					}
				}
				tr.stats["alias-calls"]++
				// queries with keys the tree itself handed out (for []byte keys these may be views of its own
				// storage), re-sliced shorter: read-only calls must leave the tree as it is
				if step%5 == 4 {
					before := safely(t.Dump)
					var handed [][]byte
					safely(func() string {
						for k := range raw.All() {
							handed = append(handed, k)
							if len(handed) >= 4 {
								break
							}
						}
						if k, _, ok := raw.Minimum(); ok {
							handed = append(handed, k)
						}
						if k, _, ok := raw.Maximum(); ok {
							handed = append(handed, k)
						}
						return ""
					})
					for _, k := range handed {
						if len(k) < 2 {
							continue
						}
						q := k[:1+r.Intn(len(k)-1)]
						safely(func() string { raw.Search(q); return "" })
						safely(func() string {
							for range raw.Prefix(q) {
								break
							}
							return ""
						})
						tr.stats["alias-requeries"]++
					}
					if after := safely(t.Dump); after != before {
						tr.emit(fmt.Sprintf("assert %d tree-unchanged-by-queries-with-handed-out-keys", id), "changed")
					} else {
						tr.emit(fmt.Sprintf("assert %d tree-unchanged-by-queries-with-handed-out-keys", id), "ok")
					}
				}
				// whatever the caller did to old buffers, the tree's content is judged by the driver
				if step%7 == 0 {
					var got []kv
					out := safely(func() string {
						for k, v := range raw.All() {
							got = append(got, kv{hexLit(k), v})
						}
						return renderKVs(got)
					})
					tr.emit(fmt.Sprintf("seq %d all 0 1", id), out)
				}
			}
			// finally every buffer ever passed in is overwritten; the tree must still hold its keys
			for _, b := range bufs {
				b.scribble()
			}
			{
				var got []kv
				out := safely(func() string {
					for k, v := range raw.All() {
						got = append(got, kv{hexLit(k), v})
					}
					return renderKVs(got)
				})
				tr.emit(fmt.Sprintf("seq %d all 0 1", id), out)
				tr.emit(fmt.Sprintf("dump %d", id), safely(t.Dump))
			}
		nextTree:
		}
	}
}

// ---- C17 ---------------------------------------------------------------------------------------

func liveHeap() uint64 {
	runtime.GC()
	runtime.GC()
	var m runtime.MemStats
	runtime.ReadMemStats(&m)
	return m.HeapAlloc
}

func runMemMode(seed int64, n int, sub string, tr *transcript) {
	r := rand.New(rand.NewSource(seed))
	const slack = int64(192 << 10) // bytes; a 16 B/operation leak over n >= 1e5 operations is >= 1.6 MB
	specs := []string{"alpha string", "alpha bytes", "num u64", "num f64", "coll string root", "coll bytes loose", "coll runes root", "comp u16,i32,s"}
	if sub != "" {
		specs = strings.Split(sub, ";")
	}
	for _, spec := range specs {
		memOne(r, n, slack, spec, tr)
	}
	if sub == "" {
		memDroppedTree(tr, slack)
		memChurnVsFresh(tr, slack)
		memDenseDrain(tr, slack)
		memSubstringKeys(tr, slack)
	}
}

// memSubstringKeys: short keys cut out of large records (a field of a line, a token of a document) that the caller
// then drops: the tree keeps what it stores – the key – and not the record it came from, also under churn.
func memSubstringKeys(tr *transcript, slack int64) {
	run := func(name string, ins func(string, int), del func(string)) {
		defer func() {
			if rec := recover(); rec != nil {
				tr.emit("assert 0 no-panic-during-memory-run/substring-keys/"+name, "PANIC:"+strings.ReplaceAll(fmt.Sprint(rec), " ", "_"))
			}
		}()
		base := int64(liveHeap())
		const nkeys, recLen = 32, 256 << 10
		for round := 0; round < 12; round++ {
			for i := 0; i < nkeys; i++ {
				rec := strings.Repeat(string(rune('a'+i%26)), recLen) // a fresh record
				off := 1000 + 37*i
				key := rec[off:off+3] + strconv.Itoa(i) // concatenation copies: vary the way the key is cut
				if i%2 == 0 {
					rec = rec[:off] + fmt.Sprintf("k%05d", i) + rec[off+6:]
					key = rec[off : off+6] // a true substring of the record
				}
				if round > 0 {
					del(key)
				}
				ins(key, i)
			}
		}
		grown := int64(liveHeap()) - base
		n := "assert 0 keys-cut-from-large-records-do-not-pin-the-records/" + name
		if grown > slack+nkeys*1024 {
			tr.emit(n, fmt.Sprintf("retained=%d", grown))
		} else {
			tr.emit(n, "ok")
		}
	}
	a := art.NewAlphaSortedTree[string, int]()
	run("alpha-string", func(k string, v int) { a.Insert(k, v) }, func(k string) { a.Delete(k) })
	c := art.NewCollationSortedTree[string, int]()
	run("coll-string", func(k string, v int) { c.Insert(k, v) }, func(k string) { c.Delete(k) })
	runtime.KeepAlive(a)
	runtime.KeepAlive(c)
	tr.stats["mem-substring-keys"] += 2
}

// memDenseDrain: a dense tree (consecutive integers: thousands of wide nodes) emptied key by key, then dropped: neither
// the emptied tree nor anything the library keeps on the side retains what the keys needed.
func memDenseDrain(tr *transcript, slack int64) {
	defer func() {
		if rec := recover(); rec != nil {
			tr.emit("assert 0 no-panic-during-memory-run/dense-drain", "PANIC:"+strings.ReplaceAll(fmt.Sprint(rec), " ", "_"))
		}
	}()
	const n = 1 << 18
	base := int64(liveHeap())
	t := art.NewUnsignedBinaryTree[uint32, int]()
	for i := uint32(0); i < n; i++ {
		t.Insert(i, int(i))
	}
	full := int64(liveHeap()) - base
	for i := uint32(0); i < n; i++ {
		t.Delete(i)
	}
	emptied := int64(liveHeap()) - base
	name := fmt.Sprintf("assert 0 dense-tree-emptied-key-by-key-retains-a-small-constant/keys=%d", n)
	if t.Size() != 0 || emptied > slack {
		tr.emit(name, fmt.Sprintf("size=%d,full=%d,emptied=%d", t.Size(), full, emptied))
	} else {
		tr.emit(name, "ok")
	}
	runtime.KeepAlive(t)
	t = nil
	dropped := int64(liveHeap()) - base
	if dropped > slack {
		tr.emit("assert 0 dropped-dense-tree-leaves-nothing-behind", fmt.Sprintf("retained=%d", dropped))
	} else {
		tr.emit("assert 0 dropped-dense-tree-leaves-nothing-behind", "ok")
	}
	tr.stats["mem-dense-drain"]++
}

// memChurnVsFresh: two trees holding the same keys – one built in one go, one that reached the same content through
// rounds of churn with collections in between (a resident set refreshed a few keys at a time among transient keys) –
// retain about the same: memory depends on what the tree stores, not on how it got there.
func memChurnVsFresh(tr *transcript, slack int64) {
	defer func() {
		if rec := recover(); rec != nil {
			tr.emit("assert 0 no-panic-during-memory-run/churn-vs-fresh", "PANIC:"+strings.ReplaceAll(fmt.Sprint(rec), " ", "_"))
		}
	}()
	const (
		resident  = 2048 // pairs of keys differing in the last byte: one node4 per pair
		transient = 2048
		perRound  = 32
		tbase     = 1 << 16
	)
	key := func(i, b uint64) uint64 { return i<<8 | b }
	build := func() art.Tree[uint64, int] {
		t := art.NewUnsignedBinaryTree[uint64, int]()
		for i := uint64(0); i < resident; i++ {
			t.Insert(key(i, 0), int(i))
			t.Insert(key(i, 1), int(i))
		}
		return t
	}
	h0 := int64(liveHeap())
	fresh := build()
	freshHeap := int64(liveHeap()) - h0
	churned := build()
	for r := uint64(0); r < resident/perRound; r++ {
		first := r * perRound
		// a few residents lose their second key (their node4 collapses and is released) …
		for i := first; i < first+perRound; i++ {
			churned.Delete(key(i, 1))
		}
		runtime.GC()
		runtime.GC()
		// … and get it back one at a time while short-lived pairs come and go around them
		next := first
		for j := uint64(0); j < transient; j++ {
			churned.Insert(key(tbase+j, 0), 0)
			churned.Insert(key(tbase+j, 1), 0)
			if j%(transient/perRound) == 0 && next < first+perRound {
				churned.Insert(key(next, 1), int(next))
				next++
			}
		}
		for ; next < first+perRound; next++ {
			churned.Insert(key(next, 1), int(next))
		}
		for j := uint64(0); j < transient; j++ {
			churned.Delete(key(tbase+j, 0))
			churned.Delete(key(tbase+j, 1))
		}
	}
	afterChurn := int64(liveHeap()) - h0 - freshHeap
	live := make([]struct{}, 2*resident)
	if churned.Size() != 2*resident || fresh.Size() != 2*resident {
		tr.emit("assert 0 churn-vs-fresh-same-content", fmt.Sprintf("sizes=%d,%d", churned.Size(), fresh.Size()))
	}
	name := fmt.Sprintf("assert 0 churned-tree-retains-like-a-fresh-tree-with-the-same-keys/keys=%d", len(live))
	if afterChurn > 2*freshHeap+slack {
		tr.emit(name, fmt.Sprintf("churned=%d,fresh=%d", afterChurn, freshHeap))
	} else {
		tr.emit(name, "ok")
	}
	tr.stats["mem-churn-vs-fresh"]++
	runtime.KeepAlive(churned)
	runtime.KeepAlive(fresh)
}

// memDroppedTree: interior nodes released by one tree are reused by others; whatever they pointed to in their
// former life must not stay reachable through them.
func memDroppedTree(tr *transcript, slack int64) {
	defer func() {
		if rec := recover(); rec != nil {
			tr.emit("assert 0 no-panic-during-memory-run/dropped-tree", "PANIC:"+strings.ReplaceAll(fmt.Sprint(rec), " ", "_"))
		}
	}()
	base := liveHeap()
	old := debug.SetGCPercent(-1) // keep the pool's contents between release and reuse
	big := art.NewAlphaSortedTree[string, int]()
	for i := 0; i < 60000; i++ {
		big.Insert(fmt.Sprintf("z%06d", i), i)
	}
	var small []art.Tree[string, int]
	for round := 0; round < 64; round++ {
		// a node4 at the root with the big subtree in its last slot, then collapsed (released to the pool)
		for _, k := range []string{"a", "b", "c"} {
			big.Insert(k, 1)
		}
		for _, k := range []string{"a", "b", "c"} {
			big.Delete(k)
		}
		// … and picked up by short-lived-looking but long-lived small trees
		for j := 0; j < 4; j++ {
			t := art.NewAlphaSortedTree[string, int]()
			t.Insert("ka", 1)
			t.Insert("kb", 2)
			small = append(small, t)
		}
	}
	// the same through the other classes: grow and shrink a wide node so that 16/48/256 images are recycled
	for round := 0; round < 8; round++ {
		for b := 1; b < 120; b++ {
			big.Insert("y"+string(rune(b))+"tail", b)
		}
		for b := 1; b < 120; b++ {
			big.Delete("y" + string(rune(b)) + "tail")
		}
		for j := 0; j < 2; j++ {
			t := art.NewAlphaSortedTree[string, int]()
			for b := 1; b < 60; b++ {
				t.Insert("q"+string(rune(b)), b)
			}
			for b := 1; b < 58; b++ {
				t.Delete("q" + string(rune(b)))
			}
			small = append(small, t)
		}
	}
	big = nil
	debug.SetGCPercent(old)
	after := liveHeap()
	grew := int64(after) - int64(base)
	name := "assert 0 dropped-tree-is-collectable-despite-recycled-nodes"
	if grew > slack+int64(len(small))*2048 {
		tr.emit(name, fmt.Sprintf("retained=%dB(with_%d_small_trees_alive)", grew, len(small)))
	} else {
		tr.emit(name, "ok")
	}
	runtime.KeepAlive(small)
	tr.stats["mem-dropped-tree-retained-bytes"] = int(grew)
}

func memOne(r *rand.Rand, n int, slack int64, spec string, tr *transcript) {
	defer func() {
		if rec := recover(); rec != nil {
			tr.emit("assert 0 no-panic-during-memory-run/"+strings.ReplaceAll(spec, " ", "_"), "PANIC:"+strings.ReplaceAll(fmt.Sprint(rec), " ", "_"))
		}
	}()
	{
		base := liveHeap()
		t := newTree(spec)
		hc := histCfg{spec: spec}
		switch {
		case strings.HasPrefix(spec, "alpha"):
			hc.unis = alphaUniverses()
		case strings.HasPrefix(spec, "num"):
			hc.unis = numUniverses(strings.Fields(spec)[1])
		case strings.HasPrefix(spec, "coll"):
			hc.unis = collUniverses()
		case strings.HasPrefix(spec, "comp"):
			hc.unis = compUniverses(strings.Split(strings.Fields(spec)[1], ","))
		}
		seen := map[string]bool{}
		var keys []string
		for tries := 0; len(keys) < 800 && tries < 100000; tries++ {
			k := pick(r, hc.unis).next(r)
			c := t.TranscriptLit(k)
			if seen[c] || (strings.HasPrefix(spec, "alpha") && strings.Contains(k, "00") && bytes.IndexByte(unhex(k), 0) >= 0) {
				continue
			}
			if strings.HasPrefix(spec, "coll") {
				dup := false
				cname := strings.Fields(spec)[2]
				// cheap proviso: identical sort keys only
				for _, p := range keys {
					if t.TranscriptLit(p)[len(p):] == c[len(k):] {
						dup = true
						break
					}
				}
				_ = cname
				if dup {
					continue
				}
			}
			seen[c] = true
			keys = append(keys, k)
		}
		keyBytes := 0
		for i, k := range keys {
			t.Insert(k, i)
			keyBytes += len(k) / 2
		}
		// what the tree keeps alive is linear in what it stores: per key a leaf, at most one inner node, its key
		// bytes (twice for collation trees, whose sort keys are a few times longer than the text)
		{
			got := int64(liveHeap()) - int64(base)
			bound := slack + int64(len(keys))*700 + int64(keyBytes)*12
			name := fmt.Sprintf("assert 0 retained-heap-linear-in-content/%s/keys=%d", strings.ReplaceAll(spec, " ", "_"), len(keys))
			if got > bound {
				tr.emit(name, fmt.Sprintf("retained=%dB>bound=%dB", got, bound))
			} else {
				tr.emit(name, "ok")
			}
			tr.stats["mem-bytes-per-key"] = max(tr.stats["mem-bytes-per-key"], int(got)/max(1, len(keys)))
		}
		// one look-up of a long absent key: whatever scratch space that needs must not be paid per stored key later
		if !strings.HasPrefix(spec, "num") && !strings.HasPrefix(spec, "comp") {
			t.Get(hexLit(bytes.Repeat([]byte("long-absent-key/"), 512)))
		}
		report := func(phase string, before uint64) {
			after := liveHeap()
			grew := int64(after) - int64(before)
			name := fmt.Sprintf("assert 0 retained-heap-bounded/%s/%s/ops=%d", strings.ReplaceAll(spec, " ", "_"), phase, n)
			if grew > slack {
				tr.emit(name, fmt.Sprintf("grew=%dB(before=%d,after=%d)", grew, before, after))
			} else {
				tr.emit(name, "ok")
			}
			tr.stats["mem-max-growth-bytes"] = max(tr.stats["mem-max-growth-bytes"], int(grew))
		}
		// read-only queries
		before := liveHeap()
		for i := 0; i < n; i++ {
			k := keys[r.Intn(len(keys))]
			switch i % 8 {
			case 0, 1, 2:
				t.Get(k)
			case 3:
				t.Get(pick(r, hc.unis).next(r))
			case 4:
				t.Min()
			case 5:
				t.Max()
			case 6:
				t.Size()
			case 7:
				if i%512 == 7 {
					t.Seq([]string{"all"}, 3, 1)
					t.Seq([]string{"topk", "2"}, 0, 1)
				}
			}
		}
		report("queries", before)
		// overwrites of present keys
		before = liveHeap()
		for i := 0; i < n; i++ {
			t.Insert(keys[r.Intn(len(keys))], i)
		}
		report("overwrites", before)
		// delete / re-insert churn at bounded size
		before = liveHeap()
		for i := 0; i < n; i++ {
			k := keys[r.Intn(len(keys))]
			t.Delete(k)
			t.Insert(k, i)
		}
		report("churn", before)
		// failed deletes
		before = liveHeap()
		for i := 0; i < n/4; i++ {
			t.Delete(pick(r, hc.unis).next(r) + "")
		}
		for _, k := range keys {
			t.Insert(k, 1)
		}
		report("failed-deletes", before)
		// empty the tree: what it retains must be a small constant (the tree object itself stays alive)
		for _, k := range keys {
			t.Delete(k)
		}
		keys = nil
		seen = nil
		after := liveHeap()
		name := fmt.Sprintf("assert 0 emptied-tree-retains-constant/%s", strings.ReplaceAll(spec, " ", "_"))
		if int64(after)-int64(base) > slack {
			tr.emit(name, fmt.Sprintf("retained=%dB", int64(after)-int64(base)))
		} else {
			tr.emit(name, "ok")
		}
		if t.Size() != 0 {
			tr.emit("assert 0 emptied-tree-size-zero", fmt.Sprint(t.Size()))
		}
		runtime.KeepAlive(t)
		tr.stats["mem-trees"]++
		tr.stats["mem-ops"] += 3*n + n/4
	}
}

// ---- C16 ---------------------------------------------------------------------------------------

type lockedBuf struct {
	mu sync.Mutex
	b  bytes.Buffer
}

func runRaceMode(seed int64, n int, tr *transcript) {
	// (a) private trees per goroutine: each goroutine runs ordinary histories into its own transcript
	G := 8
	var wg sync.WaitGroup
	outs := make([]*bytes.Buffer, G)
	stats := make([]map[string]int, G)
	for g := 0; g < G; g++ {
		g := g
		outs[g] = &bytes.Buffer{}
		stats[g] = map[string]int{}
		wg.Add(1)
		go func() {
			defer wg.Done()
			w := bufio.NewWriter(outs[g])
			ltr := &transcript{w: w, stats: stats[g]}
			r := rand.New(rand.NewSource(seed*100 + int64(g)))
			s := newSession(ltr)
			for h := 0; h < n; h++ {
				fam := families[(g+h)%len(families)]
				cfgs := histCfgsFor(fam, r)
				hc := pick(r, cfgs)
				hc.ops = 150
				hc.profile = "mixed"
				hc.maxKeys = 120
				id := 1000*(g+1) + h
				if h%2 == 1 {
					// heavy class churn: nodes of every size class are released to and taken from the shared pool
					// by all goroutines at once
					hc = pick(r, histCfgsFor(pick(r, []string{"unsigned", "signed", "alpha"}), r))
					hc.ops, hc.profile, hc.maxKeys = 150, "mixed", 300
				}
				s.newTree(id, hc.spec)
				hh := &history{s: s, r: r, id: id, cfg: hc, present: map[string]string{}, feat: map[string]bool{}}
				hh.uni = []universe{pick(r, hc.unis)}
				if fk := fanKeys(hc.spec, r); h%2 == 1 && fk != nil {
					hh.runFan(fk)
				} else {
					hh.run()
				}
				delete(s.trees, id)
				runtime.Gosched()
			}
			w.Flush()
		}()
	}
	wg.Wait()
	for g := 0; g < G; g++ {
		tr.w.Write(outs[g].Bytes())
		for k, v := range stats[g] {
			tr.stats[k] += v
		}
		tr.lines += bytes.Count(outs[g].Bytes(), []byte("\n"))
	}
	tr.stats["race-private-goroutines"] = G
	// (a') private trees oscillating around every class boundary at the same time: all goroutines take nodes of one
	// class from the shared pool and give them back within microseconds of one another
	for _, bd := range [][2]int{{3, 6}, {12, 18}, {37, 50}} {
		var owg sync.WaitGroup
		bad := make([]string, G)
		for g := 0; g < G; g++ {
			g := g
			owg.Add(1)
			go func() {
				defer owg.Done()
				defer func() {
					if rec := recover(); rec != nil {
						bad[g] = "PANIC:" + strings.ReplaceAll(fmt.Sprint(rec), " ", "_")
					}
				}()
				t := art.NewUnsignedBinaryTree[uint16, int]()
				key := func(b int) uint16 { return uint16(g+1)<<8 | uint16(b) }
				for b := 0; b < bd[0]; b++ {
					t.Insert(key(b), b)
				}
				for cyc := 0; cyc < 400*n && bad[g] == ""; cyc++ {
					for b := bd[0]; b < bd[1]; b++ {
						t.Insert(key(b), b)
					}
					cnt := 0
					for k, v := range t.All() {
						if k != key(cnt) || v != cnt {
							bad[g] = fmt.Sprintf("foreign-or-misplaced-entry:key=%#x,value=%d,position=%d", k, v, cnt)
							break
						}
						cnt++
					}
					if bad[g] == "" && (cnt != bd[1] || t.Size() != bd[1]) {
						bad[g] = fmt.Sprintf("All=%d,Size=%d,want=%d", cnt, t.Size(), bd[1])
					}
					for b := bd[0]; b < bd[1]; b++ {
						t.Delete(key(b))
					}
				}
			}()
		}
		owg.Wait()
		out := "ok"
		for _, b := range bad {
			if b != "" {
				out = b
			}
		}
		tr.emit(fmt.Sprintf("assert 0 private-trees-oscillating-around-%d-children-keep-their-own-keys", bd[0]+1), out)
		tr.stats["race-oscillations"]++
	}
	// (b) one quiescent tree, many readers
	r := rand.New(rand.NewSource(seed))
	for i, spec := range []string{"alpha string", "num u32", "num f64", "comp u8,i16,s"} {
		id := 900 + i
		s := newSession(tr)
		s.newTree(id, spec)
		hc := histCfg{spec: spec, ops: 250, profile: "mixed", maxKeys: 200}
		switch {
		case strings.HasPrefix(spec, "alpha"):
			hc.unis, hc.alpha = alphaUniverses(), true
		case strings.HasPrefix(spec, "num"):
			hc.unis, hc.numTy = numUniverses(strings.Fields(spec)[1]), strings.Fields(spec)[1]
		default:
			hc.unis = compUniverses(strings.Split(strings.Fields(spec)[1], ","))
		}
		h := &history{s: s, r: r, id: id, cfg: hc, present: map[string]string{}, feat: map[string]bool{}}
		h.uni = []universe{pick(r, hc.unis)}
		for j := 0; j < 150; j++ {
			h.insert(h.genKey())
		}
		s.exec("dump", id)
		// readers
		R := 8
		routs := make([]*bytes.Buffer, R)
		var rwg sync.WaitGroup
		for g := 0; g < R; g++ {
			g := g
			routs[g] = &bytes.Buffer{}
			rwg.Add(1)
			go func() {
				defer rwg.Done()
				w := bufio.NewWriter(routs[g])
				ltr := &transcript{w: w, stats: map[string]int{}}
				ls := &session{tr: ltr, trees: s.trees, specs: s.specs, dead: map[int]bool{}}
				lr := rand.New(rand.NewSource(seed*7 + int64(g)))
				lh := &history{s: ls, r: lr, id: id, cfg: hc, present: h.present, order: h.order, feat: map[string]bool{}}
				lh.uni = h.uni
				for q := 0; q < 40*n; q++ {
					lh.query()
					if q%16 == 0 {
						runtime.Gosched()
					}
				}
				w.Flush()
			}()
		}
		rwg.Wait()
		for g := 0; g < R; g++ {
			tr.w.Write(routs[g].Bytes())
			tr.lines += bytes.Count(routs[g].Bytes(), []byte("\n"))
		}
		s.exec("dump", id)
		tr.stats["race-shared-readers"] += R
	}
}

// ---- C18 ---------------------------------------------------------------------------------------

// exactCodec hands the tree keys whose backing array is exactly as long as the key (no spare capacity behind it)
type exactCodec struct{ schemaCodec }

func (c exactCodec) Transform(k string) ([]byte, []byte) {
	b, _ := c.schemaCodec.Transform(k)
	out := make([]byte, len(b))
	copy(out, b)
	return out, out
}

type bigVal struct {
	a [16]uint64
}

func gcCheck[K any, V any](tr *transcript, name string, t art.Tree[K, V], keys []K, mk func(i int) V, r *rand.Rand, keyLit func(K) string) {
	debug.SetGCPercent(1)
	defer debug.SetGCPercent(100)
	defer func() {
		// a fault inside the library is this tree's failure, not the end of the run
		if rec := recover(); rec != nil {
			tr.emit("assert 0 keys-and-values-survive-gc/"+name, "PANIC:"+strings.ReplaceAll(fmt.Sprint(rec), " ", "_"))
			tr.stats["gc-trees"]++
		}
	}()
	want := map[string]V{}
	fail := ""
	for i, k := range keys {
		v := mk(i)
		t.Insert(k, v)
		want[keyLit(k)] = v
		if i%16 == 0 {
			runtime.GC()
		}
	}
	// every third key gets a new value (the store into an existing leaf), and must still be found under its key
	for i, k := range keys {
		if i%3 != 0 {
			continue
		}
		v := mk(i + 1000003)
		t.Insert(k, v)
		want[keyLit(k)] = v
		if got, ok := t.Search(k); (!ok || !reflect.DeepEqual(got, v)) && fail == "" {
			fail = fmt.Sprintf("overwrite:key-%s-not-found-with-its-new-value", keyLit(k))
		}
	}
	if t.Size() != len(want) && fail == "" {
		fail = fmt.Sprintf("overwrite:Size=%d,keys=%d", t.Size(), len(want))
	}
	verify := func(phase string) {
		runtime.GC()
		got := map[string]V{}
		var order []string
		for k, v := range t.All() {
			got[keyLit(k)] = v
			order = append(order, keyLit(k))
		}
		if !reflect.DeepEqual(got, want) && fail == "" {
			fail = fmt.Sprintf("%s:All()-differs(len=%d,want=%d)", phase, len(got), len(want))
		}
		// the other access paths over the same structure (they cast and slice node memory too)
		if len(keys) > 1 && !strings.HasPrefix(name, "coll") {
			for _, pair := range [][2]int{{0, len(keys) - 1}, {len(keys) / 2, len(keys) / 3}, {1, 1}} {
				n := 0
				for k, v := range t.Range(keys[pair[0]], keys[pair[1]]) {
					if w, ok := want[keyLit(k)]; (!ok || !reflect.DeepEqual(v, w)) && fail == "" {
						fail = fmt.Sprintf("%s:Range-yields-%s", phase, keyLit(k))
					}
					n++
				}
			}
		}
		if k, v, ok := t.Minimum(); ok {
			if w, present := want[keyLit(k)]; (!present || !reflect.DeepEqual(v, w)) && fail == "" {
				fail = fmt.Sprintf("%s:Minimum", phase)
			}
		}
		if k, v, ok := t.Maximum(); ok {
			if w, present := want[keyLit(k)]; (!present || !reflect.DeepEqual(v, w)) && fail == "" {
				fail = fmt.Sprintf("%s:Maximum", phase)
			}
		}
		for k, v := range t.TopK(3) {
			if w, present := want[keyLit(k)]; (!present || !reflect.DeepEqual(v, w)) && fail == "" {
				fail = fmt.Sprintf("%s:TopK", phase)
			}
		}
		for _, k := range keys {
			v, ok := t.Search(k)
			w, present := want[keyLit(k)]
			if ok != present || (ok && !reflect.DeepEqual(v, w)) {
				if fail == "" {
					fail = fmt.Sprintf("%s:Search(%s)", phase, keyLit(k))
				}
			}
		}
		if t.Size() != len(want) && fail == "" {
			fail = fmt.Sprintf("%s:Size=%d,want=%d", phase, t.Size(), len(want))
		}
		_ = order
	}
	verify("after-inserts")
	// garbage pressure while the tree is live
	var junk [][]byte
	for i := 0; i < 2000; i++ {
		junk = append(junk, make([]byte, 64+r.Intn(512)))
		if len(junk) > 64 {
			junk = junk[32:]
		}
	}
	verify("after-garbage")
	for i, k := range keys {
		if i%2 == 0 {
			t.Delete(k)
			delete(want, keyLit(k))
		}
		if i%32 == 0 {
			runtime.GC()
		}
	}
	verify("after-deletes")
	for i, k := range keys {
		if i%4 == 0 {
			v := mk(i + 7)
			t.Insert(k, v)
			want[keyLit(k)] = v
		}
	}
	verify("after-reinserts")
	runtime.KeepAlive(junk)
	if fail == "" {
		tr.emit("assert 0 keys-and-values-survive-gc/"+name, "ok")
	} else {
		tr.emit("assert 0 keys-and-values-survive-gc/"+name, fail)
	}
	tr.stats["gc-trees"]++
	tr.stats["gc-keys"] += len(keys)
}

func gcForValue[V any](tr *transcript, vname string, mk func(i int) V, r *rand.Rand, n int) {
	// byte-string keys
	{
		var keys []string
		seen := map[string]bool{}
		us := alphaUniverses()
		// two families below very long shared runs (compressed paths far beyond the inline limit and beyond
		// the size of the node that records them)
		for i := 0; i < 24; i++ {
			k := strings.Repeat("L", 140+300*(i%2)) + string(rune('a'+i%5)) + strings.Repeat("m", i%3) + strconv.Itoa(i)
			seen[k] = true
			keys = append(keys, k)
		}
		for len(keys) < n {
			k := string(unhex(pick(r, us).next(r)))
			if !seen[k] && !strings.Contains(k, "\x00") {
				seen[k] = true
				keys = append(keys, k)
			}
		}
		gcCheck(tr, "alpha-string/"+vname, art.NewAlphaSortedTree[string, V](), keys, mk, r, func(k string) string { return hexLit([]byte(k)) })
		bkeys := make([][]byte, len(keys))
		for i, k := range keys {
			bkeys[i] = []byte(k)
		}
		gcCheck(tr, "alpha-bytes/"+vname, art.NewAlphaSortedTree[[]byte, V](), bkeys, mk, r, func(k []byte) string { return hexLit(k) })
		// collation (sort keys distinct by construction: ASCII lower-case letters of different content)
		var ckeys []string
		cseen := map[string]bool{}
		for len(ckeys) < n/2 {
			k := string(randBytes(r, []byte("abcdefgh"), 1, 8))
			if !cseen[k] {
				cseen[k] = true
				ckeys = append(ckeys, k)
			}
		}
		gcCheck(tr, "coll-string/"+vname, art.NewCollationSortedTree[string, V](), ckeys, mk, r, func(k string) string { return hexLit([]byte(k)) })
		rkeys := make([][]rune, len(ckeys))
		for i, k := range ckeys {
			rkeys[i] = []rune(k)
		}
		gcCheck(tr, "coll-runes/"+vname, art.NewCollationSortedTree[[]rune, V](), rkeys, mk, r, func(k []rune) string { return hexLit([]byte(string(k))) })
		// word families: long words first, then ever shorter beginnings of them, so that a key ends inside a compressed
		// path that was built from longer keys (every length, hence every distance from the end of the key's allocation)
		var fam []string
		for j := 0; j < 6; j++ {
			base := string(randBytes(r, []byte("abcdefghijklmnopqrstuvwxyz"), 18+3*j, 18+3*j))
			fam = append(fam, base+"izations", base+"ization", base+"s", base)
			for cut := 1; cut < 12; cut++ {
				fam = append(fam, base[:len(base)-cut])
			}
		}
		gcCheck(tr, "coll-loose-families/"+vname, art.NewCollationSortedTree[string, V](art.WithCollator[string, V](collate.New(language.English, collate.Loose))),
			fam, mk, r, func(k string) string { return hexLit([]byte(k)) })
		gcCheck(tr, "alpha-families/"+vname, art.NewAlphaSortedTree[string, V](), fam, mk, r, func(k string) string { return hexLit([]byte(k)) })
		tuples := make([]string, len(fam))
		for i, k := range fam {
			tuples[i] = bitsLit(uint64(i%3), 16) + "," + hexLit([]byte(k)) // the string field comes last in a schema
		}
		gcCheck(tr, "compound-exact-families/"+vname, art.NewCompoundTree[string, V](exactCodec{schemaCodec{[]string{"u16", "s"}}}), tuples, mk, r, func(k string) string { return k })
	}
	// numeric keys
	{
		seen := map[uint64]bool{}
		var u []uint64
		var s []int32
		var f []float64
		for len(u) < n {
			v := r.Uint64() >> uint(r.Intn(60))
			if !seen[v] {
				seen[v] = true
				u = append(u, v)
			}
		}
		sseen := map[int32]bool{}
		for len(s) < n {
			v := int32(r.Uint32())
			if !sseen[v] {
				sseen[v] = true
				s = append(s, v)
			}
		}
		fseen := map[float64]bool{}
		for len(f) < n {
			v := r.NormFloat64() * 1e6
			if !fseen[v] {
				fseen[v] = true
				f = append(f, v)
			}
		}
		gcCheck(tr, "unsigned-u64/"+vname, art.NewUnsignedBinaryTree[uint64, V](), u, mk, r, func(k uint64) string { return fmt.Sprint(k) })
		gcCheck(tr, "signed-i32/"+vname, art.NewSignedBinaryTree[int32, V](), s, mk, r, func(k int32) string { return fmt.Sprint(k) })
		gcCheck(tr, "float-f64/"+vname, art.NewFloatBinaryTree[float64, V](), f, mk, r, func(k float64) string { return fmt.Sprint(k) })
		// compound over tuple literals
		fields := []string{"u16", "i32", "s"}
		var ck []string
		cseen := map[string]bool{}
		cu := compUniverses(fields)[0]
		for len(ck) < n {
			k := cu.next(r)
			if !cseen[k] {
				cseen[k] = true
				ck = append(ck, k)
			}
		}
		gcCheck(tr, "compound/"+vname, art.NewCompoundTree[string, V](schemaCodec{fields}), ck, mk, r, func(k string) string { return k })
	}
}

// gcCrossType: two trees whose leaves have the same size but a different pointer layout live side by side; what one
// releases the other may pick up at once (no collection in between); after collections the pointer-carrying values
// must still be what was stored.
func gcCrossType(tr *transcript, r *rand.Rand) {
	fail := ""
	func() {
		defer func() {
			if rec := recover(); rec != nil {
				fail = "PANIC:" + strings.ReplaceAll(fmt.Sprint(rec), " ", "_")
			}
		}()
		old := debug.SetGCPercent(-1)
		plain := art.NewUnsignedBinaryTree[uint64, uint64]()
		ptrs := art.NewUnsignedBinaryTree[uint64, *[4]uint64]()
		strs := art.NewAlphaSortedTree[string, string]()
		pairs := art.NewAlphaSortedTree[string, [2]uint64]()
		const n = 400
		for i := 0; i < n; i++ {
			plain.Insert(uint64(i)*7, uint64(i))
			pairs.Insert(fmt.Sprintf("p%05d", i), [2]uint64{uint64(i), 1})
		}
		for i := 0; i < n; i++ {
			// a leaf without pointers goes, a leaf with pointers comes – in the other tree
			plain.Delete(uint64(i) * 7)
			v := &[4]uint64{uint64(i), uint64(i) * 3, 0xfeedface, uint64(i) ^ 0xff}
			ptrs.Insert(uint64(i)*11+1, v)
			pairs.Delete(fmt.Sprintf("p%05d", i))
			strs.Insert(fmt.Sprintf("s%05d", i), strings.Repeat("v", 1+i%9)+strconv.Itoa(i))
		}
		debug.SetGCPercent(old)
		for k := 0; k < 3; k++ {
			runtime.GC()
			junk := make([][]uint64, 0, 4096)
			for j := 0; j < 4096; j++ {
				junk = append(junk, []uint64{0xdeadbeef, 0xdeadbeef, 0xdeadbeef, 0xdeadbeef})
			}
			runtime.KeepAlive(junk)
		}
		for i := 0; i < n && fail == ""; i++ {
			v, ok := ptrs.Search(uint64(i)*11 + 1)
			if !ok || v == nil || *v != [4]uint64{uint64(i), uint64(i) * 3, 0xfeedface, uint64(i) ^ 0xff} {
				fail = fmt.Sprintf("pointer-value-of-key-%d-changed", i)
			}
			sv, ok := strs.Search(fmt.Sprintf("s%05d", i))
			if !ok || sv != strings.Repeat("v", 1+i%9)+strconv.Itoa(i) {
				fail = fmt.Sprintf("string-value-of-key-%d-changed", i)
			}
		}
	}()
	if fail == "" {
		fail = "ok"
	}
	tr.emit("assert 0 values-survive-gc-when-leaves-are-recycled-across-value-types", fail)
	tr.stats["gc-cross-type"]++
}

// gcAddressKeys: integer and float keys whose bytes, read as a machine word in either byte order, are addresses
// inside the Go heap – of live objects and of memory that has been freed. A key is data: the collector must never
// take it for a pointer.
func gcAddressKeys(tr *transcript, r *rand.Rand) {
	fail := ""
	func() {
		defer func() {
			if rec := recover(); rec != nil {
				fail = "PANIC:" + strings.ReplaceAll(fmt.Sprint(rec), " ", "_")
			}
		}()
		var addrs []uint64
		live := make([][]byte, 64)
		for i := range live {
			live[i] = make([]byte, 1<<14)
			addrs = append(addrs, uint64(uintptr(unsafe.Pointer(&live[i][r.Intn(1<<14)]))))
		}
		for k := 0; k < 8; k++ {
			dead := make([]byte, 8<<20)
			for j := 0; j < 32; j++ {
				addrs = append(addrs, uint64(uintptr(unsafe.Pointer(&dead[r.Intn(len(dead))]))))
			}
			dead = nil
		}
		runtime.GC()
		runtime.GC()
		u := art.NewUnsignedBinaryTree[uint64, int]()
		s := art.NewSignedBinaryTree[int64, int]()
		f := art.NewFloatBinaryTree[float64, int]()
		up := art.NewUnsignedBinaryTree[uint, int]()
		for i, a := range addrs {
			for _, v := range []uint64{a, bits.ReverseBytes64(a), a ^ 1<<63, bits.ReverseBytes64(a) ^ 1<<63, bits.ReverseBytes64(a ^ 1<<63)} {
				u.Insert(v, i)
				s.Insert(int64(v), i)
				f.Insert(math.Float64frombits(v), i)
				up.Insert(uint(v), i)
			}
			if i%16 == 0 {
				runtime.GC()
			}
		}
		for k := 0; k < 3; k++ {
			runtime.GC()
		}
		n := 0
		for range u.All() {
			n++
		}
		if n != u.Size() {
			fail = fmt.Sprintf("All=%d,Size=%d", n, u.Size())
		}
		runtime.KeepAlive(live)
		runtime.KeepAlive(s)
		runtime.KeepAlive(f)
		runtime.KeepAlive(up)
	}()
	if fail == "" {
		fail = "ok"
	}
	tr.emit("assert 0 keys-that-look-like-heap-addresses-survive-gc", fail)
	tr.stats["gc-address-keys"]++
}

// gcEmptyKeys: many one-key trees holding the EMPTY key (its storage is a zero-length object: any pointer "to its
// bytes" is a pointer one past something), garbage between the inserts, collections, the freed small slots refilled,
// then one more insert that splits the leaf.  Whatever a leaf keeps of an empty key must keep its block alive.
func gcEmptyKeys(tr *transcript, n int) {
	rounds := 1 + n/60
	if rounds > 8 {
		rounds = 8
	}
	fail := ""
	note := func(what string) {
		if fail == "" {
			fail = what
		}
	}
	var sink [][]byte
	for round := 0; round < rounds && fail == ""; round++ {
		const trees = 1500
		cs := make([]art.Tree[string, int], trees)
		cb := make([]art.Tree[[]byte, int], trees)
		as := make([]art.Tree[string, int], trees)
		for i := 0; i < trees; i++ {
			cs[i] = art.NewCollationSortedTree[string, int]()
			cb[i] = art.NewCollationSortedTree[[]byte, int]()
			as[i] = art.NewAlphaSortedTree[string, int]()
			cs[i].Insert("", i)
			sink = append(sink, make([]byte, 1+i%15))
			cb[i].Insert([]byte{}, i)
			sink = append(sink, make([]byte, 1+i%7))
			as[i].Insert("", i)
		}
		sink = nil
		runtime.GC()
		runtime.GC()
		// refill freed tiny/small slots
		var fill [][]byte
		for i := 0; i < 40000; i++ {
			b := make([]byte, 1+i%16)
			for j := range b {
				b[j] = 0xFF
			}
			fill = append(fill, b)
		}
		for i := 0; i < trees && fail == ""; i++ {
			cs[i].Insert("a", -1)
			cb[i].Insert([]byte("a"), -1)
			as[i].Insert("a", -1)
			if v, ok := cs[i].Search(""); !ok || v != i {
				note(fmt.Sprintf("collation[string] tree %d: Search(\"\") = %v,%v after collections, want %d", i, v, ok, i))
			}
			if v, ok := cb[i].Search([]byte{}); !ok || v != i {
				note(fmt.Sprintf("collation[[]byte] tree %d: Search(\"\") = %v,%v after collections, want %d", i, v, ok, i))
			}
			if v, ok := as[i].Search(""); !ok || v != i {
				note(fmt.Sprintf("byte-string tree %d: Search(\"\") = %v,%v after collections, want %d", i, v, ok, i))
			}
			var ks []string
			for k := range cs[i].All() {
				ks = append(ks, k)
			}
			if len(ks) != 2 || ks[0] != "" || ks[1] != "a" {
				note(fmt.Sprintf("collation[string] tree %d: All() = %q after collections, want [\"\" \"a\"]", i, ks))
			}
		}
		runtime.KeepAlive(fill)
		tr.stats["gc-empty-key-trees"] += 3 * trees
	}
	if fail == "" {
		fail = "ok"
	}
	tr.emit("assert 0 empty-keys-survive-gc", fail)
}

func runGCMode(seed int64, n int, tr *transcript) {
	r := rand.New(rand.NewSource(seed))
	gcForValue(tr, "int", func(i int) int { return i * 3 }, r, n)
	gcForValue(tr, "string", func(i int) string { return strings.Repeat("v", i%7) + strconv.Itoa(i) }, r, n)
	gcForValue(tr, "ptr", func(i int) *int { x := i * 5; return &x }, r, n)
	gcForValue(tr, "slice", func(i int) []int { return []int{i, i + 1, i + 2} }, r, n)
	gcForValue(tr, "big", func(i int) bigVal { var b bigVal; b.a[0], b.a[15] = uint64(i), uint64(i)*7; return b }, r, n)
	gcForValue(tr, "zero-size", func(i int) struct{} { return struct{}{} }, r, n)
	// values narrower than a machine word (whatever shares the word with them in a leaf must survive a store)
	gcForValue(tr, "bool", func(i int) bool { return i%3 == 1 }, r, n/2)
	gcForValue(tr, "uint8", func(i int) uint8 { return uint8(i*7 + 1) }, r, n/2)
	gcForValue(tr, "int32", func(i int) int32 { return int32(-i*13 - 1) }, r, n/2)
	gcForValue(tr, "3bytes", func(i int) [3]byte { return [3]byte{byte(i), byte(i >> 8), 0xEE} }, r, n/2)
	gcCrossType(tr, r)
	gcAddressKeys(tr, r)
	gcEmptyKeys(tr, n)
	keys := make([]string, 0, len(tr.stats))
	for k := range tr.stats {
		keys = append(keys, k)
	}
	sort.Strings(keys)
}
