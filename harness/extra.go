package main

func runExtraMode(mode string, seed int64, n int, sub string, tr *transcript) bool { return false }
