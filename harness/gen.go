package main

// Key generators. Every random choice comes from one *rand.Rand seeded by VERIF_SEED.

import (
	"fmt"
	"math"
	"math/rand"
	"strings"
)

type universe struct {
	name string
	next func(r *rand.Rand) string // a key literal (generator form)
	// probe returns a literal likely to be absent but structurally close to stored ones
	probe func(r *rand.Rand, present []string) string
}

func pick[T any](r *rand.Rand, xs []T) T { return xs[r.Intn(len(xs))] }

func randBytes(r *rand.Rand, alphabet []byte, minLen, maxLen int) []byte {
	n := minLen + r.Intn(maxLen-minLen+1)
	b := make([]byte, n)
	for i := range b {
		b[i] = alphabet[r.Intn(len(alphabet))]
	}
	return b
}

// mutateBytes derives a near miss: truncate, extend, flip one byte, or diverge inside.
func mutateBytes(r *rand.Rand, b []byte, alphabet []byte) []byte {
	c := append([]byte{}, b...)
	switch r.Intn(5) {
	case 0:
		if len(c) > 0 {
			c = c[:r.Intn(len(c))]
		}
	case 1:
		c = append(c, alphabet[r.Intn(len(alphabet))])
	case 2:
		if len(c) > 0 {
			c[r.Intn(len(c))] = alphabet[r.Intn(len(alphabet))]
		}
	case 3:
		if len(c) > 0 {
			i := r.Intn(len(c))
			c = append(c[:i:i], alphabet[r.Intn(len(alphabet))])
		}
	case 4:
		if len(c) > 1 {
			i := r.Intn(len(c))
			c = append(c[:i:i], c[i+1:]...)
		}
	}
	return c
}

func alphaProbe(alphabet []byte) func(r *rand.Rand, present []string) string {
	return func(r *rand.Rand, present []string) string {
		if len(present) == 0 {
			return hexLit(randBytes(r, alphabet, 0, 4))
		}
		k := unhex(pick(r, present))
		if len(k) > 11 && r.Intn(2) == 0 {
			// differ from a stored key only in bytes past the inline limit of a long shared run
			c := append([]byte{}, k...)
			c[10+r.Intn(len(c)-10)] = alphabet[r.Intn(len(alphabet))]
			return hexLit(c)
		}
		return hexLit(mutateBytes(r, k, alphabet))
	}
}

func alphaUniverses() []universe {
	ab := []byte("ab")
	abc := []byte("abc")
	edge := []byte{0x01, 0x7F, 0x80, 0xFF}
	us := []universe{
		{name: "U1ab", next: func(r *rand.Rand) string { return hexLit(randBytes(r, ab, 0, 7)) }, probe: alphaProbe(ab)},
		{name: "U1abc", next: func(r *rand.Rand) string { return hexLit(randBytes(r, abc, 0, 5)) }, probe: alphaProbe(abc)},
		{name: "U3edge", next: func(r *rand.Rand) string { return hexLit(randBytes(r, edge, 0, 4)) }, probe: alphaProbe(edge)},
	}
	// U2: long shared prefixes around the inline limit, short tails
	for _, L := range []int{9, 10, 11, 12, 15, 22} {
		L := L
		tails := []byte("ab12")
		us = append(us, universe{
			name: fmt.Sprintf("U2long%d", L),
			next: func(r *rand.Rand) string {
				base := []byte(strings.Repeat("p", L))
				// two or three base families that diverge at a random place
				switch r.Intn(4) {
				case 0:
					base[r.Intn(L)] = 'q'
				case 1:
					base[L-1] = 'x'
				case 2:
					if L > 10 {
						base[10+r.Intn(L-10)] = 'y'
					}
				}
				if r.Intn(3) == 0 {
					// a second long run below the first branch point
					base = append(base, []byte(strings.Repeat("m", 8+r.Intn(6)))...)
				}
				return hexLit(append(base, randBytes(r, tails, 0, 3)...))
			},
			probe: alphaProbe([]byte("pqxyab12m")),
		})
	}
	// U5: a few stems, each followed by a long run that every key below the stem shares (compressed paths well
	// beyond the inline limit), then short tails and sometimes a second long run
	for _, L := range []int{11, 14, 22} {
		L := L
		us = append(us, universe{
			name: fmt.Sprintf("U5stems%d", L),
			next: func(r *rand.Rand) string {
				k := []byte(pick(r, []string{"s", "t", "st", "sx"}))
				k = append(k, []byte(strings.Repeat("p", L))...)
				k = append(k, pick(r, []byte("ab12")))
				if r.Intn(2) == 0 {
					k = append(k, []byte(strings.Repeat("m", pick(r, []int{3, 11, 13})))...)
					k = append(k, randBytes(r, []byte("ab"), 0, 2)...)
				}
				return hexLit(k)
			},
			probe: alphaProbe([]byte("pmstxab12")),
		})
	}
	// U6: shared runs around 2^8 and 2^9 bytes (lengths that no longer fit a byte; every key below a stem shares the run)
	for _, L := range []int{250, 256, 260, 265, 512} {
		L := L
		us = append(us, universe{
			name: fmt.Sprintf("U6huge%d", L),
			next: func(r *rand.Rand) string {
				k := []byte(pick(r, []string{"", "s", "t"}))
				k = append(k, []byte(strings.Repeat("p", L-len(k)+r.Intn(2)))...)
				k = append(k, pick(r, []byte("ab12")))
				if r.Intn(2) == 0 {
					k = append(k, randBytes(r, []byte("ab"), 1, 2)...)
				}
				return hexLit(k)
			},
			probe: alphaProbe([]byte("pstab12")),
		})
	}
	// U7: keys containing and ending in 0x00 (little-endian integers, padded records). The history keeps the stored
	// set free of pairs where one key followed by 0x00 starts the other (known finding D3).
	nul := []byte{0, 0, 'a', 'b'}
	us = append(us, universe{
		name:  "U7nul",
		next:  func(r *rand.Rand) string { return hexLit(randBytes(r, nul, 1, 5)) },
		probe: alphaProbe(nul),
	})
	// U4: wide fan-out at one or two levels
	us = append(us, universe{
		name: "U4fan",
		next: func(r *rand.Rand) string {
			pre := randBytes(r, ab, 0, 2)
			b := []byte{byte(1 + r.Intn(255))}
			if r.Intn(3) == 0 {
				b = append(b, byte(1+r.Intn(255)))
			}
			return hexLit(append(pre, b...))
		},
		probe: func(r *rand.Rand, present []string) string {
			return hexLit(append(randBytes(r, ab, 0, 2), byte(1+r.Intn(255))))
		},
	})
	us = append(us, universe{
		name: "U4fan1",
		next: func(r *rand.Rand) string { return hexLit([]byte{byte(1 + r.Intn(255))}) },
		probe: func(r *rand.Rand, present []string) string {
			return hexLit(randBytes(r, []byte{1, 2, 0x7f, 0x80, 0xfe, 0xff}, 0, 2))
		},
	})
	return us
}

// ---- numeric ---------------------------------------------------------------------------

func widthOf(ty string) int {
	switch ty {
	case "u8", "i8":
		return 8
	case "u16", "i16":
		return 16
	case "u32", "i32", "f32":
		return 32
	case "u64", "i64", "f64", "uint", "int":
		return 64
	}
	panic("bad numeric type " + ty)
}

func maskW(w int) uint64 {
	if w == 64 {
		return ^uint64(0)
	}
	return uint64(1)<<uint(w) - 1
}

func numSpecials(ty string, w int) []uint64 {
	m := maskW(w)
	s := []uint64{0, 1, 2, m, m - 1, uint64(1) << uint(w-1), (uint64(1) << uint(w-1)) - 1, (uint64(1) << uint(w-1)) + 1,
		0x80, 0x7f, 0xff, 0x100 & m, 0xffff & m, 0x10000 & m}
	if ty == "f32" {
		s = append(s, 0x7F800000, 0xFF800000, 0x7FC00000, 0x7F800001, 0xFFC00001, 0x7FFFFFFF, 0xFFFFFFFF, 0x80000000,
			0x00000001, 0x80000001, 0x007FFFFF, 0x00800000, 0x7F7FFFFF, 0xFF7FFFFF, 0x3F800000, 0xBF800000)
	}
	if ty == "f64" {
		s = append(s, 0x7FF0000000000000, 0xFFF0000000000000, 0x7FF8000000000001, 0x7FF0000000000001, 0xFFF8000000000000,
			0x7FFFFFFFFFFFFFFF, 0xFFFFFFFFFFFFFFFF, 0x8000000000000000, 1, 0x8000000000000001, 0x000FFFFFFFFFFFFF,
			0x0010000000000000, 0x7FEFFFFFFFFFFFFF, 0xFFEFFFFFFFFFFFFF, 0x3FF0000000000000, 0xBFF0000000000000)
	}
	return s
}

func numUniverses(ty string) []universe {
	w := widthOf(ty)
	m := maskW(w)
	lit := func(v uint64) string { return bitsLit(v&m, w) }
	sp := numSpecials(ty, w)
	nearProbe := func(r *rand.Rand, present []string) string {
		if len(present) == 0 || r.Intn(4) == 0 {
			return lit(pick(r, sp) + uint64(r.Intn(3)) - 1)
		}
		p := pick(r, present)
		if p == "nan" {
			return lit(pick(r, sp))
		}
		v := parseBits(p, w)
		switch r.Intn(3) {
		case 0:
			return lit(v + 1)
		case 1:
			return lit(v - 1)
		default:
			return lit(v ^ (uint64(1) << uint(r.Intn(w))))
		}
	}
	us := []universe{
		{name: ty + "-specials", next: func(r *rand.Rand) string {
			return lit(pick(r, sp) + uint64(r.Intn(5)) - 2)
		}, probe: nearProbe},
		{name: ty + "-dense", next: func(r *rand.Rand) string {
			base := pick(r, sp)
			return lit(base + uint64(r.Intn(400)) - 200)
		}, probe: nearProbe},
		{name: ty + "-sparse", next: func(r *rand.Rand) string {
			// one of a few values per byte position: many nodes at every depth
			var v uint64
			for i := 0; i < w/8; i++ {
				v = v<<8 | uint64(pick(r, []byte{0x00, 0x01, 0x7f, 0x80, 0xff, byte(r.Intn(256))}))
			}
			return lit(v)
		}, probe: nearProbe},
		{name: ty + "-random", next: func(r *rand.Rand) string { return lit(r.Uint64()) }, probe: nearProbe},
	}
	if w == 8 {
		us = append(us, universe{name: ty + "-all", next: func(r *rand.Rand) string { return lit(uint64(r.Intn(256))) }, probe: nearProbe})
	}
	return us
}

func isNaNLit(ty, l string) bool {
	if l == "nan" {
		return true
	}
	switch ty {
	case "f32":
		return math.IsNaN(float64(math.Float32frombits(uint32(parseBits(l, 32)))))
	case "f64":
		return math.IsNaN(math.Float64frombits(parseBits(l, 64)))
	}
	return false
}

// canonNum canonicalises NaN literals (all NaNs are one key).
func canonNum(ty, l string) string {
	if isNaNLit(ty, l) {
		return "nan"
	}
	return l
}

// ---- collation -------------------------------------------------------------------------

var collSyllables = []string{
	"a", "b", "ab", "abc", "A", "B", "Ab", "aB", "e", "é", "è", "ê", "ë", "E", "É", "o", "ö", "ø", "O", "Ö",
	"u", "ü", "U", "n", "ñ", "ss", "ß", "ae", "æ", "z", "Z", "å", "ä",
	"α", "β", "γ", "Α", "ά", "я", "Я", "ж",
	"中", "文", "日", "本", "語", "あ", "ア", "か", "が",
	"1", "2", "10", "9", "01", "100", "007",
	" ", "-", "_", ".", "'",
	"cote", "coté", "côte", "côté", "resume", "résumé", "Résumé",
	"pppppppppp", "ppppppppppp", "qqqqqqqqqqqqqq",
}

func collUniverses() []universe {
	gen := func(maxSyl int) func(r *rand.Rand) string {
		return func(r *rand.Rand) string {
			n := 1 + r.Intn(maxSyl)
			var sb strings.Builder
			for i := 0; i < n; i++ {
				sb.WriteString(pick(r, collSyllables))
			}
			return hexLit([]byte(sb.String()))
		}
	}
	probe := func(r *rand.Rand, present []string) string {
		if len(present) == 0 || r.Intn(3) == 0 {
			return gen(3)(r)
		}
		s := string(unhex(pick(r, present)))
		rs := []rune(s)
		switch r.Intn(3) {
		case 0:
			if len(rs) > 0 {
				rs = rs[:r.Intn(len(rs))]
			}
		case 1:
			rs = append(rs, []rune(pick(r, collSyllables))...)
		case 2:
			if len(rs) > 0 {
				rs[r.Intn(len(rs))] = []rune(pick(r, collSyllables))[0]
			}
		}
		return hexLit([]byte(string(rs)))
	}
	// one multi-byte script, short strings: many keys are proper prefixes of others, character counts and byte counts differ
	scripts := [][]rune{[]rune("привет"), []rune("日本語中文"), []rune("αβγά"), []rune("éèêa")}
	script := func(r *rand.Rand) string {
		al := scripts[r.Intn(len(scripts))]
		n := 1 + r.Intn(6)
		rs := make([]rune, n)
		for i := range rs {
			rs[i] = al[r.Intn(2+r.Intn(len(al)-1))]
		}
		return hexLit([]byte(string(rs)))
	}
	// long strings whose sort keys share runs around 2^8 bytes: 64 letters differing in the case of an early letter
	// (primary and secondary levels identical), or a shared prefix of 126..134 letters
	longBase := ""
	base := func(r *rand.Rand) string {
		if longBase == "" {
			longBase = string(randBytes(r, []byte("abcdefghijklmnopqrstuvwxyz"), 140, 140))
		}
		return longBase
	}
	// every key of the tree shares the run, so that ONE node carries a compressed path of 2^8 bytes and a little more
	long64 := func(r *rand.Rand) string {
		b := []byte(base(r)[:64])
		i := r.Intn(6)
		b[i] = b[i] - 'a' + 'A'
		if r.Intn(3) == 0 {
			j := r.Intn(8)
			b[j] = b[j]&^0x20 | byte(r.Intn(2))<<5
		}
		return hexLit(b)
	}
	long128 := func(r *rand.Rand) string {
		n := 128 + r.Intn(5)
		return hexLit(append([]byte(base(r)[:n]), randBytes(r, []byte("ab"), 1, 2)...))
	}
	// letters followed by digit runs, and accented / case variants of few stems: the strings whose order depends on
	// the collator's options and language (numeric ordering, å/ä/ö after z, case first …)
	tailored := func(r *rand.Rand) string {
		stem := pick(r, []string{"a", "b", "z", "ä", "ö", "å", "o", "A", "Z", "ae", "oe", "ü", "u"})
		switch r.Intn(3) {
		case 0:
			return hexLit([]byte(stem + pick(r, []string{"1", "2", "9", "10", "11", "100", "9a", "10a", "02", "007"})))
		case 1:
			return hexLit([]byte(stem + pick(r, []string{"", "a", "z", "A", "ä", "ö"})))
		}
		return hexLit([]byte(pick(r, []string{"1", "2", "9", "10", "100", "20"}) + stem))
	}
	return []universe{
		{name: "coll-tailored", next: tailored, probe: probe},
		{name: "coll-script", next: script, probe: probe},
		{name: "coll-long64", next: long64, probe: probe},
		{name: "coll-long128", next: long128, probe: probe},
		{name: "coll-short", next: gen(2), probe: probe},
		{name: "coll-mixed", next: gen(4), probe: probe},
		{name: "coll-ascii", next: func(r *rand.Rand) string {
			return hexLit(randBytes(r, []byte("abAB"), 1, 5))
		}, probe: probe},
	}
}

// ---- compound --------------------------------------------------------------------------

var schemaFields = []string{"u8", "u16", "u32", "u64", "i8", "i16", "i32", "i64", "f32", "f64"}

func randSchema(r *rand.Rand) []string {
	n := 1 + r.Intn(4)
	var fs []string
	for i := 0; i < n; i++ {
		fs = append(fs, pick(r, schemaFields))
	}
	if r.Intn(2) == 0 {
		str := pick(r, []string{"s", "s", "r"})
		if n == 4 {
			fs[3] = str
		} else {
			fs = append(fs, str)
		}
	}
	return fs
}

func compUniverses(fields []string) []universe {
	fieldGen := make([]func(r *rand.Rand) string, len(fields))
	for i, f := range fields {
		if f == "s" || f == "r" {
			fieldGen[i] = func(r *rand.Rand) string {
				if r.Intn(2) == 0 {
					return hexLit(randBytes(r, []byte("ab"), 0, 4))
				}
				return hexLit(randBytes(r, []byte{1, 0x7f, 0x80, 0xff, 'p'}, 0, 13))
			}
			continue
		}
		us := numUniverses(f)
		f := f
		fieldGen[i] = func(r *rand.Rand) string {
			// few distinct values per leading field so that tuples share prefixes
			u := us[r.Intn(2)]
			return canonNum(f, u.next(r))
		}
	}
	next := func(r *rand.Rand) string {
		parts := make([]string, len(fields))
		for i := range fields {
			parts[i] = fieldGen[i](r)
		}
		return strings.Join(parts, ",")
	}
	probe := func(r *rand.Rand, present []string) string {
		if len(present) == 0 || r.Intn(3) == 0 {
			return next(r)
		}
		parts := strings.Split(pick(r, present), ",")
		i := r.Intn(len(parts))
		parts[i] = fieldGen[i](r)
		return strings.Join(parts, ",")
	}
	// clusters: every field but the last numeric one is pinned to one of two values, so that the tuples below a
	// branch share a long run of bytes (compressed paths beyond the inline limit)
	var pinned [2][]string
	pin := func(r *rand.Rand) {
		if pinned[0] != nil {
			return
		}
		for v := 0; v < 2; v++ {
			pinned[v] = make([]string, len(fields))
			for i := range fields {
				pinned[v][i] = fieldGen[i](r)
				if fields[i] == "s" || fields[i] == "r" {
					pinned[v][i] = hexLit([]byte(strings.Repeat("p", pick(r, []int{11, 13, 12, 254, 258})+2*v)))
				}
			}
		}
	}
	lastNum := -1
	for i, f := range fields {
		if f != "s" && f != "r" && f != "f32" && f != "f64" {
			lastNum = i
		}
	}
	clusterNext := func(r *rand.Rand) string {
		pin(r)
		parts := append([]string{}, pinned[r.Intn(2)]...)
		if lastNum >= 0 {
			w := widthOf(fields[lastNum])
			base := parseBits(parts[lastNum], w) &^ 0xffff
			parts[lastNum] = bitsLit((base|uint64(r.Intn(1<<12)))&maskW(w), w)
		}
		for i, f := range fields {
			if f == "s" || f == "r" {
				parts[i] = hexLit(append(unhex(parts[i]), randBytes(r, []byte("ab"), 0, 2)...))
			}
		}
		return strings.Join(parts, ",")
	}
	// mutations: one base tuple, each key differing from it in one byte at a position drawn uniformly over the whole
	// encoded key – branch points at every depth, among them deep inside runs longer than the inline limit
	deepOnly := false
	mutateNext := func(r *rand.Rand) string {
		pin(r)
		parts := append([]string{}, pinned[0]...)
		// the byte that differs sits, half of the time, among the last few bytes of the fixed-width part (so that many
		// keys share everything before it: long compressed paths with branch points deep inside), otherwise anywhere
		total := 0
		for _, f := range fields {
			if f != "s" && f != "r" {
				total += widthOf(f) / 8
			}
		}
		for m := 0; m < 1+r.Intn(2); m++ {
			i, pos := r.Intn(len(fields)), -1
			if total > 0 && (deepOnly || r.Intn(2) == 0) {
				g := total - 1 - r.Intn(min(4, total))
				for j, f := range fields {
					if f == "s" || f == "r" {
						continue
					}
					if w := widthOf(f) / 8; g < w {
						i, pos = j, w-1-g // pos counts from the least significant byte
						break
					} else {
						g -= w
					}
				}
			}
			switch f := fields[i]; f {
			case "s", "r":
				b := unhex(parts[i])
				if len(b) > 0 {
					b[r.Intn(len(b))] = pick(r, []byte("pqr"))
				}
				if r.Intn(4) == 0 {
					b = append(b, pick(r, []byte("ab")))
				}
				parts[i] = hexLit(b)
			case "f32", "f64":
				// keep the sign and exponent (no NaN), vary one mantissa byte
				w := widthOf(f)
				if pos < 0 || pos >= w/8-2 {
					pos = r.Intn(w/8 - 2)
				}
				parts[i] = canonNum(f, bitsLit(parseBits(parts[i], w)^uint64(1+r.Intn(255))<<uint(8*pos), w))
			default:
				w := widthOf(f)
				if pos < 0 {
					pos = r.Intn(w / 8)
				}
				parts[i] = bitsLit(parseBits(parts[i], w)^uint64(1+r.Intn(3))<<uint(8*pos), w)
			}
		}
		return strings.Join(parts, ",")
	}
	// clusters whose long shared run is left, by some keys, a few bytes before its end
	deepNext := func(r *rand.Rand) string {
		if r.Intn(2) == 0 {
			return clusterNext(r)
		}
		deepOnly = true
		defer func() { deepOnly = false }()
		return mutateNext(r)
	}
	return []universe{{name: "comp", next: next, probe: probe}, {name: "comp-cluster", next: clusterNext, probe: probe},
		{name: "comp-mutate", next: mutateNext, probe: probe}, {name: "comp-deep", next: deepNext, probe: probe}}
}
