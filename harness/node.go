package main

// Node-level correspondence (C10): bare inner nodes driven through every size class,
// the SWAR helpers of node4.go and the node16 vector routines, and the key codecs (C07).

import (
	"bytes"
	"encoding/hex"
	"fmt"
	"math"
	"math/bits"
	"math/rand"
	"strconv"
	"strings"

	art "github.com/Clement-Jean/go-art"
)

var edgeBytes = []byte{0x00, 0x01, 0x02, 0x7e, 0x7f, 0x80, 0x81, 0xfe, 0xff}

type bareDrv struct {
	tr      *transcript
	r       *rand.Rand
	id      int
	n       *art.VerifBareNode
	present map[byte]uint32
	nextCid uint32
	dead    bool
}

func (d *bareDrv) keys() []byte {
	ks := make([]byte, 0, len(d.present))
	for k := range d.present {
		ks = append(ks, k)
	}
	// deterministic order
	for i := 1; i < len(ks); i++ {
		for j := i; j > 0 && ks[j] < ks[j-1]; j-- {
			ks[j], ks[j-1] = ks[j-1], ks[j]
		}
	}
	return ks
}

func (d *bareDrv) emit(cmd string, f func() string) {
	d.tr.begin(cmd)
	out := safely(f)
	d.tr.emit(cmd, out)
	if out == "PANIC" {
		d.dead = true
	}
}

func (d *bareDrv) add(b byte) {
	if _, ok := d.present[b]; ok || d.dead {
		return
	}
	d.nextCid++
	cid := d.nextCid
	d.present[b] = cid
	d.emit(fmt.Sprintf("bn addl %d %d %d", d.id, b, cid), func() string { d.n.AddLeaf(b, cid); return d.n.Raw() })
}

func (d *bareDrv) addInner(b byte, plen uint32, pfx [10]byte) {
	if _, ok := d.present[b]; ok || d.dead {
		return
	}
	d.nextCid++
	cid := d.nextCid
	d.present[b] = cid
	d.emit(fmt.Sprintf("bn addi %d %d %d %d %s", d.id, b, cid, plen, hex.EncodeToString(pfx[:])),
		func() string { d.n.AddInnerWithLeaf(b, cid, plen, pfx); return d.n.Raw() })
}

func (d *bareDrv) rm(b byte) {
	if _, ok := d.present[b]; !ok || d.dead {
		return
	}
	delete(d.present, b)
	d.emit(fmt.Sprintf("bn rm %d %d", d.id, b), func() string { d.n.Remove(b); return d.n.Raw() })
	if d.n.Collapsed() {
		d.dead = true
		d.tr.stats["bare-collapses"]++
	}
}

func (d *bareDrv) probe(all bool) {
	if d.dead {
		return
	}
	find := func(b byte) {
		d.emit(fmt.Sprintf("bn find %d %d", d.id, b), func() string {
			if id, ok := d.n.Find(b); ok {
				return strconv.Itoa(int(id))
			}
			return "-"
		})
	}
	if all {
		for b := 0; b < 256; b++ {
			find(byte(b))
		}
	} else {
		for _, b := range edgeBytes {
			find(b)
		}
		for i := 0; i < 6; i++ {
			find(byte(d.r.Intn(256)))
		}
		for _, k := range d.keys() {
			if d.r.Intn(4) == 0 {
				find(k)
				find(k + 1)
				find(k - 1)
			}
		}
	}
	for _, dir := range []string{"asc", "desc"} {
		dir := dir
		d.emit(fmt.Sprintf("bn enum %d %s", d.id, dir), func() string {
			ids := d.n.Enumerate(dir == "desc")
			if len(ids) == 0 {
				return "-"
			}
			parts := make([]string, len(ids))
			for i, x := range ids {
				parts[i] = strconv.Itoa(int(x))
			}
			return strings.Join(parts, ",")
		})
	}
	// the real minimum()/maximum() walks, started at this node
	for _, op := range []string{"min", "max"} {
		op := op
		d.emit(fmt.Sprintf("bn %s %d", op, d.id), func() string {
			if id, ok := d.n.Extreme(op == "max"); ok {
				return strconv.Itoa(int(id))
			}
			return "-"
		})
	}
	d.tr.emit(fmt.Sprintf("bn inv %d", d.id), "ok")
}

func randPfx(r *rand.Rand) (uint32, [10]byte) {
	var p [10]byte
	for i := range p {
		p[i] = byte(r.Intn(256))
	}
	plen := uint32(pick(r, []int{0, 1, 2, 5, 8, 9, 10, 11, 15, 40}))
	return plen, p
}

func runNodeMode(seed int64, n int, tr *transcript) {
	r := rand.New(rand.NewSource(seed))
	for i := 0; i < n; i++ {
		plen, pfx := randPfx(r)
		d := &bareDrv{tr: tr, r: r, id: i, n: art.NewVerifBareNode(plen, pfx), present: map[byte]uint32{}}
		tr.emit(fmt.Sprintf("bn new %d %d %s", i, plen, hex.EncodeToString(pfx[:])), "ok")
		strat := i % 7
		tr.stats[fmt.Sprintf("bare-strategy-%d", strat)]++
		rawSrc := func() byte { return byte(r.Intn(256)) }
		if strat == 0 || r.Intn(4) == 0 {
			rawSrc = func() byte { return pick(r, edgeBytes) }
		}
		// a byte that is not registered yet (falls back to any free byte)
		byteSrc := func() byte {
			for try := 0; try < 16; try++ {
				if b := rawSrc(); d.present[b] == 0 {
					return b
				}
			}
			for {
				if b := byte(r.Intn(256)); d.present[b] == 0 || len(d.present) == 256 {
					return b
				}
			}
		}
		switch strat {
		case 0: // node4 closure over boundary bytes
			for s := 0; s < 60 && !d.dead; s++ {
				if len(d.present) < 4 && (r.Intn(2) == 0 || len(d.present) <= 2) {
					d.add(byteSrc())
				} else if len(d.present) > 2 {
					d.rm(pick(r, d.keys()))
				}
				d.probe(s%7 == 0)
			}
		case 1, 2: // ramp up through the classes, then down to the collapse
			target := pick(r, []int{5, 6, 17, 18, 49, 50, 60, 120, 256})
			for len(d.present) < target && !d.dead {
				d.add(byteSrc())
				if r.Intn(8) == 0 {
					d.probe(false)
				}
			}
			d.probe(true)
			for len(d.present) > 1 && !d.dead {
				if len(d.present) == 2 && r.Intn(2) == 0 {
					// make the survivor an inner node so that the path merge is exercised
					ks := d.keys()
					d.rm(ks[0])
					break
				}
				d.rm(pick(r, d.keys()))
				if r.Intn(8) == 0 {
					d.probe(false)
				}
				if l := len(d.present); l == 3 || l == 4 || l == 12 || l == 13 || l == 37 || l == 38 {
					d.probe(true)
				}
			}
		case 3: // oscillate around every threshold
			for _, c := range []int{4, 16, 48, 37, 12, 3, 5, 17, 49} {
				for len(d.present) < c && !d.dead {
					d.add(byteSrc())
				}
				for len(d.present) > c && !d.dead {
					d.rm(pick(r, d.keys()))
				}
				for k := 0; k < 6 && !d.dead; k++ {
					d.add(byteSrc())
					d.probe(false)
					if len(d.present) > 2 {
						d.rm(pick(r, d.keys()))
					}
					d.probe(k == 0)
				}
			}
		case 4: // inner children and the path merge
			ip, ipfx := randPfx(r)
			d.addInner(byteSrc(), ip, ipfx)
			for len(d.present) < 2+r.Intn(3) && !d.dead {
				d.add(byteSrc())
			}
			d.probe(true)
			// remove the leaves so that the inner child survives
			for _, k := range d.keys() {
				if len(d.present) > 1 && d.present[k] != 1 {
					d.rm(k)
				}
			}
		case 6: // fill a class exactly, shrink into the class below, then insert between the survivors and the old maximum
			capN := pick(r, []int{16, 16, 48, 4})
			for len(d.present) < capN && !d.dead {
				d.add(byteSrc())
			}
			d.probe(true)
			old := d.keys() // ascending
			oldMax := old[len(old)-1]
			low := map[int]int{16: 3, 48: 12, 4: 3}[capN]
			// the old maximum goes first in half of the runs, and is among the victims in any case
			if r.Intn(2) == 0 {
				d.rm(oldMax)
			}
			for len(d.present) > low && !d.dead {
				ks := d.keys()
				if _, ok := d.present[oldMax]; ok && len(d.present) == low+1 {
					d.rm(oldMax)
				} else {
					d.rm(ks[r.Intn(len(ks)-1)]) // never the current maximum unless it is the old one
				}
			}
			d.probe(true)
			for round := 0; round < 3 && !d.dead; round++ {
				if len(d.present) > 2 {
					d.rm(pick(r, d.keys()))
					d.probe(true)
				}
				ks := d.keys()
				top := ks[len(ks)-1]
				if top < oldMax {
					e := top + 1 + byte(r.Intn(int(oldMax-top)))
					d.add(e)
					d.probe(true)
				}
				if _, ok := d.present[0]; !ok && r.Intn(2) == 0 {
					d.add(0)
					d.probe(true)
				}
			}
			for len(d.present) < 6 && !d.dead {
				d.add(byteSrc())
			}
			d.probe(true)
		case 5: // random walk
			for s := 0; s < 400 && !d.dead; s++ {
				grow := r.Intn(100) < 55
				if grow || len(d.present) <= 2 {
					d.add(byteSrc())
				} else {
					d.rm(pick(r, d.keys()))
				}
				if r.Intn(10) == 0 {
					d.probe(r.Intn(5) == 0)
				}
			}
			d.probe(true)
		}
	}
}

// ---- plain functions -----------------------------------------------------------------------

func scalarSearch16(keys *[16]byte, n uint8, c byte) int {
	for i := 0; i < int(n) && i < 16; i++ {
		if keys[i] == c {
			return i
		}
	}
	return -1
}

func scalarInsertPos16(keys *[16]byte, n uint8, c byte) int {
	for i := 0; i < int(n) && i < 16; i++ {
		if keys[i] > c {
			return i
		}
	}
	return -1
}

func runFnMode(seed int64, n int, sub string, tr *transcript) {
	r := rand.New(rand.NewSource(seed))
	word := func() uint32 {
		switch r.Intn(4) {
		case 0:
			return r.Uint32()
		case 1: // lanes from the boundary set
			return uint32(pick(r, edgeBytes)) | uint32(pick(r, edgeBytes))<<8 | uint32(pick(r, edgeBytes))<<16 | uint32(pick(r, edgeBytes))<<24
		case 2: // sorted lanes
			a := byte(r.Intn(256))
			return art.VerifConstruct(a, a+byte(r.Intn(3)), a+byte(r.Intn(6)), a+byte(r.Intn(9)))
		default:
			return uint32(r.Intn(256)) * 0x01010101
		}
	}
	if sub == "" || sub == "swar" {
		for i := 0; i < n; i++ {
			k := word()
			var b byte
			switch r.Intn(3) {
			case 0:
				b = byte(r.Intn(256))
			case 1:
				b = pick(r, edgeBytes)
			default:
				b = byte(k>>(8*uint(r.Intn(4)))) + byte(r.Intn(3)) - 1
			}
			pos := r.Intn(4)
			tr.emit(fmt.Sprintf("fn search4 %08x %d", k, b), strconv.Itoa(art.VerifSearchNode4(k, b)))
			tr.emit(fmt.Sprintf("fn inspos4 %08x %d", k, b), strconv.Itoa(art.VerifInsertPosNode4(k, b)))
			tr.emit(fmt.Sprintf("fn getat %08x %d", k, pos), strconv.Itoa(int(art.VerifGetAtPos(k, pos))))
			tr.emit(fmt.Sprintf("fn setat %08x %d %d", k, pos, b), fmt.Sprintf("%08x", art.VerifSetAtPos(k, pos, b)))
			tr.emit(fmt.Sprintf("fn shl %08x %d", k, pos), fmt.Sprintf("%08x", art.VerifShiftLeftClear(k, pos)))
			p5 := r.Intn(5)
			tr.emit(fmt.Sprintf("fn shr %08x %d", k, p5), fmt.Sprintf("%08x", art.VerifShiftRightClear(k, p5)))
		}
	}
	if sub == "" || sub == "s16" {
		// sampled lines for the Lean lane-level model
		emit16 := func(keys *[16]byte, l uint8, b byte) {
			tr.emit(fmt.Sprintf("fn search16 %s %d %d", hex.EncodeToString(keys[:]), l, b), strconv.Itoa(art.VerifSearchNode16(keys, l, b)))
			tr.emit(fmt.Sprintf("fn inspos16 %s %d %d", hex.EncodeToString(keys[:]), l, b), strconv.Itoa(art.VerifInsertPosNode16(keys, l, b)))
		}
		for i := 0; i < n; i++ {
			var keys [16]byte
			for j := range keys {
				if r.Intn(2) == 0 {
					keys[j] = pick(r, edgeBytes)
				} else {
					keys[j] = byte(r.Intn(256))
				}
			}
			l := uint8(r.Intn(17))
			if r.Intn(3) == 0 { // sorted occupied lanes, adversarial stale lanes
				v := byte(r.Intn(64))
				for j := 0; j < int(l); j++ {
					keys[j] = v
					v += byte(1 + r.Intn(8))
				}
			}
			var b byte
			switch r.Intn(3) {
			case 0:
				b = byte(r.Intn(256))
			case 1:
				b = pick(r, edgeBytes)
			default:
				b = keys[r.Intn(16)] + byte(r.Intn(3)) - 1
			}
			emit16(&keys, l, b)
		}
	}
	if sub == "s16full" {
		// structured exhaustive sweep against a scalar reference (Go-side; the sampled lines above
		// tie the same routines to the Lean lane-level model)
		bad := 0
		calls := 0
		var first string
		for l := 0; l <= 16; l++ {
			for pos := 0; pos < 16; pos++ {
				for v := 0; v < 256; v++ {
					var keys [16]byte
					// background lanes: a value that can never equal / exceed the probes below
					for bg := 0; bg < 2; bg++ {
						for j := range keys {
							if bg == 0 {
								keys[j] = 0
							} else {
								keys[j] = byte(v)
							}
						}
						keys[pos] = byte(v)
						if bg == 1 && pos > 0 {
							keys[pos-1] = byte(v) ^ 0x80
						}
						for b := 0; b < 256; b++ {
							calls += 2
							g1, w1 := art.VerifSearchNode16(&keys, uint8(l), byte(b)), scalarSearch16(&keys, uint8(l), byte(b))
							g2, w2 := art.VerifInsertPosNode16(&keys, uint8(l), byte(b)), scalarInsertPos16(&keys, uint8(l), byte(b))
							if g1 != w1 || g2 != w2 {
								bad++
								if first == "" {
									first = fmt.Sprintf("keys=%x len=%d b=%d search=%d/%d inspos=%d/%d", keys, l, b, g1, w1, g2, w2)
								}
							}
						}
					}
				}
			}
		}
		tr.stats["s16-sweep-calls"] = calls
		if bad == 0 {
			tr.emit("assert 0 node16-routines-equal-scalar-scan-on-structured-sweep", "ok")
		} else {
			tr.emit("assert 0 node16-routines-equal-scalar-scan-on-structured-sweep", fmt.Sprintf("mismatches=%d first:%s", bad, strings.ReplaceAll(first, " ", "_")))
		}
	}
}

// ---- codecs --------------------------------------------------------------------------------

var numTypes = []string{"u8", "u16", "u32", "u64", "uint", "i8", "i16", "i32", "i64", "int", "f32", "f64"}

func leanTy(ty string) string {
	switch ty {
	case "uint":
		return fmt.Sprintf("u%d", bits.UintSize)
	case "int":
		return fmt.Sprintf("i%d", bits.UintSize)
	}
	return ty
}

func tyWidth(ty string) int {
	if ty == "uint" || ty == "int" {
		return bits.UintSize
	}
	return widthOf(ty)
}

func encNum(ty string, v uint64) []byte {
	var b []byte
	switch ty {
	case "u8":
		_, b = art.UnsignedBinaryKey[uint8]{}.Transform(uint8(v))
	case "u16":
		_, b = art.UnsignedBinaryKey[uint16]{}.Transform(uint16(v))
	case "u32":
		_, b = art.UnsignedBinaryKey[uint32]{}.Transform(uint32(v))
	case "u64":
		_, b = art.UnsignedBinaryKey[uint64]{}.Transform(v)
	case "uint":
		_, b = art.UnsignedBinaryKey[uint]{}.Transform(uint(v))
	case "i8":
		_, b = art.SignedBinaryKey[int8]{}.Transform(int8(v))
	case "i16":
		_, b = art.SignedBinaryKey[int16]{}.Transform(int16(v))
	case "i32":
		_, b = art.SignedBinaryKey[int32]{}.Transform(int32(v))
	case "i64":
		_, b = art.SignedBinaryKey[int64]{}.Transform(int64(v))
	case "int":
		if bits.UintSize == 32 {
			_, b = art.SignedBinaryKey[int]{}.Transform(int(int32(v)))
		} else {
			_, b = art.SignedBinaryKey[int]{}.Transform(int(int64(v)))
		}
	case "f32":
		_, b = art.FloatBinaryKey[float32]{}.Transform(math.Float32frombits(uint32(v)))
	case "f64":
		_, b = art.FloatBinaryKey[float64]{}.Transform(math.Float64frombits(v))
	}
	return b
}

func decNum(ty string, b []byte) string {
	w := tyWidth(ty)
	m := maskW(w)
	switch ty {
	case "u8":
		return bitsLit(uint64(art.UnsignedBinaryKey[uint8]{}.Restore(b)), w)
	case "u16":
		return bitsLit(uint64(art.UnsignedBinaryKey[uint16]{}.Restore(b)), w)
	case "u32":
		return bitsLit(uint64(art.UnsignedBinaryKey[uint32]{}.Restore(b)), w)
	case "u64":
		return bitsLit(art.UnsignedBinaryKey[uint64]{}.Restore(b), w)
	case "uint":
		return bitsLit(uint64(art.UnsignedBinaryKey[uint]{}.Restore(b))&m, w)
	case "i8":
		return bitsLit(uint64(art.SignedBinaryKey[int8]{}.Restore(b))&m, w)
	case "i16":
		return bitsLit(uint64(art.SignedBinaryKey[int16]{}.Restore(b))&m, w)
	case "i32":
		return bitsLit(uint64(art.SignedBinaryKey[int32]{}.Restore(b))&m, w)
	case "i64":
		return bitsLit(uint64(art.SignedBinaryKey[int64]{}.Restore(b)), w)
	case "int":
		return bitsLit(uint64(art.SignedBinaryKey[int]{}.Restore(b))&m, w)
	case "f32":
		return f32Lit(art.FloatBinaryKey[float32]{}.Restore(b))
	case "f64":
		return f64Lit(art.FloatBinaryKey[float64]{}.Restore(b))
	}
	panic("bad type")
}

// declaredCmp is the order the documentation promises, computed with Go's own comparison
// operators (not with the encoders): NaN lowest and all alike, −0 below +0.
func declaredCmp(ty string, a, b uint64) int {
	sgn := func(x bool, y bool) int {
		if x {
			return -1
		}
		if y {
			return 1
		}
		return 0
	}
	w := tyWidth(ty)
	switch ty[0] {
	case 'u':
		return sgn(a < b, b < a)
	case 'i':
		sh := uint(64 - w)
		x, y := int64(a<<sh)>>sh, int64(b<<sh)>>sh
		return sgn(x < y, y < x)
	}
	var x, y float64
	var sx, sy bool
	if ty == "f32" {
		x, y = float64(math.Float32frombits(uint32(a))), float64(math.Float32frombits(uint32(b)))
	} else {
		x, y = math.Float64frombits(a), math.Float64frombits(b)
	}
	sx, sy = math.Signbit(x), math.Signbit(y)
	nx, ny := math.IsNaN(x), math.IsNaN(y)
	switch {
	case nx && ny:
		return 0
	case nx:
		return -1
	case ny:
		return 1
	case x < y:
		return -1
	case y < x:
		return 1
	}
	// equal as IEEE values: only ±0 remain distinguishable
	return sgn(sx && !sy, sy && !sx)
}

func runCodecMode(seed int64, n int, sub string, tr *transcript) {
	r := rand.New(rand.NewSource(seed))
	one := func(ty string, v uint64) {
		w := tyWidth(ty)
		v &= maskW(w)
		lt := leanTy(ty)
		var enc []byte
		out := safely(func() string { enc = encNum(ty, v); return hexLit(enc) })
		tr.emit(fmt.Sprintf("fn enc %s %s", lt, bitsLit(v, w)), out)
		if out != "PANIC" {
			keep := append([]byte{}, enc...)
			tr.emit(fmt.Sprintf("fn dec %s %s", lt, hexLit(enc)), safely(func() string { return decNum(ty, enc) }))
			// decoding reads its argument (the trees hand Restore their own key storage); the same bytes decode the
			// same way a second time
			if !bytes.Equal(enc, keep) {
				tr.emit(fmt.Sprintf("assert 0 decoding-leaves-the-encoding-unchanged-%s", ty), fmt.Sprintf("before=%x,after=%x", keep, enc))
				copy(enc, keep)
			}
			if len(enc) != w/8 {
				tr.emit(fmt.Sprintf("assert 0 fixed-length-%s", ty), fmt.Sprintf("len=%d", len(enc)))
			}
		}
	}
	pair := func(ty string, a, b uint64) {
		w := tyWidth(ty)
		a &= maskW(w)
		b &= maskW(w)
		ea, eb := encNum(ty, a), encNum(ty, b)
		tr.emit(fmt.Sprintf("fn ordcmp %s %s %s", leanTy(ty), bitsLit(a, w), bitsLit(b, w)),
			fmt.Sprintf("%d %d", declaredCmp(ty, a, b), bytes.Compare(ea, eb)))
	}
	// Restore on words that need not be encodings of anything (the smallest and largest words, the words around
	// the sign boundary, random ones): model and code must agree on every branch of Restore, also the ones no
	// Transform output reaches (float word 2)
	rawDec := func(ty string, word uint64) {
		w := tyWidth(ty)
		word &= maskW(w)
		b := make([]byte, w/8)
		for i := 0; i < w/8; i++ {
			b[i] = byte(word >> uint(8*(w/8-1-i)))
		}
		tr.emit(fmt.Sprintf("fn dec %s %s", leanTy(ty), hexLit(b)), safely(func() string { return decNum(ty, b) }))
		tr.stats["codec-raw-word-decodes"]++
	}
	for _, ty := range numTypes {
		w := tyWidth(ty)
		top := maskW(w)
		for _, x := range []uint64{0, 1, 2, 3, 4, top, top - 1, top - 2, top - 3, uint64(1) << uint(w-1), uint64(1)<<uint(w-1) - 1, uint64(1)<<uint(w-1) + 1, uint64(1)<<uint(w-1) + 2} {
			rawDec(ty, x)
		}
		for i := 0; i < 50; i++ {
			rawDec(ty, r.Uint64())
		}
	}
	for _, ty := range numTypes {
		w := tyWidth(ty)
		sp := numSpecials(strings.NewReplacer("uint", "u64", "int", "i64").Replace(ty), w)
		if w == 8 || (w == 16 && sub == "exhaustive") {
			for v := 0; v < 1<<uint(w); v++ {
				one(ty, uint64(v))
			}
			tr.stats["codec-exhaustive-"+ty] = 1 << uint(w)
		}
		if w == 8 {
			for a := 0; a < 256; a++ {
				for b := 0; b < 256; b += 1 + r.Intn(3) {
					pair(ty, uint64(a), uint64(b))
				}
			}
		}
		for _, a := range sp {
			for d := -2; d <= 2; d++ {
				one(ty, a+uint64(d))
			}
			for _, b := range sp {
				pair(ty, a, b)
				pair(ty, a+1, b)
				pair(ty, a, b-1)
			}
		}
		for i := 0; i < n; i++ {
			a := r.Uint64()
			if r.Intn(2) == 0 {
				a = pick(r, sp) + uint64(r.Intn(2000)) - 1000
			}
			one(ty, a)
			var b uint64
			switch r.Intn(4) {
			case 0:
				b = a + 1
			case 1:
				b = a ^ (uint64(1) << uint(r.Intn(w)))
			case 2:
				b = pick(r, sp)
			default:
				b = r.Uint64()
			}
			pair(ty, a, b)
		}
	}
}

// ---- replay of node-level lines ----------------------------------------------------------------

var replayBares = map[int]*bareDrv{}

func atoiOr(s string) int { v, _ := strconv.Atoi(s); return v }

func parsePfx(h string) (p [10]byte) {
	b, _ := hex.DecodeString(h)
	copy(p[:], b)
	return
}

// replayNodeLine re-executes one `bn …` / `fn …` command of a transcript.
func replayNodeLine(f []string, tr *transcript) {
	if f[0] == "fn" {
		replayFn(f, tr)
		return
	}
	id := atoiOr(f[2])
	switch f[1] {
	case "new":
		plen := uint32(atoiOr(f[3]))
		pfx := parsePfx(f[4])
		replayBares[id] = &bareDrv{tr: tr, r: rand.New(rand.NewSource(1)), id: id, n: art.NewVerifBareNode(plen, pfx), present: map[byte]uint32{}}
		tr.emit(strings.Join(f, " "), "ok")
		return
	}
	d := replayBares[id]
	if d == nil || d.dead {
		return
	}
	switch f[1] {
	case "addl":
		b, cid := byte(atoiOr(f[3])), uint32(atoiOr(f[4]))
		d.present[b] = cid
		d.emit(strings.Join(f, " "), func() string { d.n.AddLeaf(b, cid); return d.n.Raw() })
	case "addi":
		b, cid := byte(atoiOr(f[3])), uint32(atoiOr(f[4]))
		d.present[b] = cid
		d.emit(strings.Join(f, " "), func() string { d.n.AddInnerWithLeaf(b, cid, uint32(atoiOr(f[5])), parsePfx(f[6])); return d.n.Raw() })
	case "rm":
		b := byte(atoiOr(f[3]))
		delete(d.present, b)
		d.emit(strings.Join(f, " "), func() string { d.n.Remove(b); return d.n.Raw() })
		if !d.dead && d.n.Collapsed() {
			d.dead = true
		}
	case "find":
		b := byte(atoiOr(f[3]))
		d.emit(strings.Join(f, " "), func() string {
			if id, ok := d.n.Find(b); ok {
				return strconv.Itoa(int(id))
			}
			return "-"
		})
	case "enum":
		d.emit(strings.Join(f, " "), func() string {
			ids := d.n.Enumerate(f[3] == "desc")
			if len(ids) == 0 {
				return "-"
			}
			parts := make([]string, len(ids))
			for i, x := range ids {
				parts[i] = strconv.Itoa(int(x))
			}
			return strings.Join(parts, ",")
		})
	case "min", "max":
		d.emit(strings.Join(f, " "), func() string {
			if id, ok := d.n.Extreme(f[1] == "max"); ok {
				return strconv.Itoa(int(id))
			}
			return "-"
		})
	case "inv":
		tr.emit(strings.Join(f, " "), "ok")
	}
}

func replayFn(f []string, tr *transcript) {
	cmd := strings.Join(f, " ")
	u32 := func(s string) uint32 { v, _ := strconv.ParseUint(s, 16, 32); return uint32(v) }
	out := safely(func() string {
		switch f[1] {
		case "search4":
			return strconv.Itoa(art.VerifSearchNode4(u32(f[2]), byte(atoiOr(f[3]))))
		case "inspos4":
			return strconv.Itoa(art.VerifInsertPosNode4(u32(f[2]), byte(atoiOr(f[3]))))
		case "getat":
			return strconv.Itoa(int(art.VerifGetAtPos(u32(f[2]), atoiOr(f[3]))))
		case "setat":
			return fmt.Sprintf("%08x", art.VerifSetAtPos(u32(f[2]), atoiOr(f[3]), byte(atoiOr(f[4]))))
		case "shl":
			return fmt.Sprintf("%08x", art.VerifShiftLeftClear(u32(f[2]), atoiOr(f[3])))
		case "shr":
			return fmt.Sprintf("%08x", art.VerifShiftRightClear(u32(f[2]), atoiOr(f[3])))
		case "search16", "inspos16":
			var keys [16]byte
			b, _ := hex.DecodeString(f[2])
			copy(keys[:], b)
			if f[1] == "search16" {
				return strconv.Itoa(art.VerifSearchNode16(&keys, uint8(atoiOr(f[3])), byte(atoiOr(f[4]))))
			}
			return strconv.Itoa(art.VerifInsertPosNode16(&keys, uint8(atoiOr(f[3])), byte(atoiOr(f[4]))))
		case "enc", "dec", "ordcmp":
			ty := f[2]
			if ty == fmt.Sprintf("u%d", bits.UintSize) && false {
				ty = "uint"
			}
			w := widthOf(ty)
			switch f[1] {
			case "enc":
				return hexLit(encNum(ty, parseBits(f[3], w)))
			case "dec":
				return decNum(ty, unhex(f[3]))
			default:
				a, b := parseBits(f[3], w), parseBits(f[4], w)
				return fmt.Sprintf("%d %d", declaredCmp(ty, a, b), bytes.Compare(encNum(ty, a), encNum(ty, b)))
			}
		}
		return "unknown-fn"
	})
	tr.emit(cmd, out)
}
