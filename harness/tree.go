package main

// History generation and execution for the tree-level correspondence.
// Every executed call is written as `<cmd> => <output>`; the Lean driver replays the file.

import (
	"bufio"
	"bytes"
	"fmt"
	"math"
	"math/bits"
	"math/rand"
	"os"
	"sort"
	"strconv"
	"strings"
	"unicode/utf8"
)

type transcript struct {
	w     *bufio.Writer
	lines int
	stats map[string]int
}

func (t *transcript) emit(cmd, out string) {
	fmt.Fprintf(t.w, "%s => %s\n", cmd, out)
	t.lines++
	op := cmd
	if i := strings.IndexByte(cmd, ' '); i > 0 {
		op = cmd[:i]
	}
	t.stats["op:"+op]++
	if out == "PANIC" {
		t.stats["panics"]++
	}
}

func (t *transcript) comment(s string) { fmt.Fprintf(t.w, "# %s\n", s) }

// begin announces a call before it is made and pushes everything written so far out of the process: if the call
// never returns (a cycle in a damaged structure) or takes the process down (a fault the runtime does not let anyone
// recover from), the transcript on disk ends with the call that did it.
func (t *transcript) begin(cmd string) {
	fmt.Fprintf(t.w, "# begin %s\n", cmd)
	t.w.Flush()
}

func safely(f func() string) (out string) {
	defer func() {
		if r := recover(); r != nil {
			out = "PANIC"
			lastPanic = fmt.Sprint(r)
		}
	}()
	return f()
}

var lastPanic string

// multipass: most sequences are ranged over several times (C14 legs)
var multipass bool

func renderKVs(xs []kv) string {
	if len(xs) == 0 {
		return "-"
	}
	parts := make([]string, len(xs))
	for i, x := range xs {
		parts[i] = x.k + ":" + strconv.Itoa(x.v)
	}
	return strings.Join(parts, ",")
}

// session executes commands against real trees.
type session struct {
	tr    *transcript
	trees map[int]drvTree
	specs map[int]string
	dead  map[int]bool
	// check15: compare the raw dump before/after every read-only or no-op call
	check15  bool
	sizeTick int
	// the updates applied to each tree so far (generator literals), for building a replica that saw no queries
	updates map[int][]update
}

type update struct {
	del bool
	lit string
	val int
}

func newSession(tr *transcript) *session {
	return &session{tr: tr, trees: map[int]drvTree{}, specs: map[int]string{}, dead: map[int]bool{}, updates: map[int][]update{}}
}

// replica builds a new tree of the same kind by the same updates and none of the queries
func (s *session) replica(id int) drvTree {
	t := newTree(s.specs[id])
	for _, u := range s.updates[id] {
		if u.del {
			t.Delete(u.lit)
		} else {
			t.Insert(u.lit, u.val)
		}
	}
	return t
}

func (s *session) newTree(id int, spec string) {
	t := newTree(spec)
	s.trees[id] = t
	s.specs[id] = spec
	s.tr.emit(fmt.Sprintf("new %d %s", id, t.KindSpec()), "ok")
	s.tr.comment(fmt.Sprintf("treespec %d %s", id, spec))
}

// exec runs one command given in generator form: op, tree id, args (key literals in generator form).
func (s *session) exec(op string, id int, args ...string) string {
	t := s.trees[id]
	if t == nil || s.dead[id] {
		return ""
	}
	tl := t.TranscriptLit
	var cmd, out string
	readonly := false
	s.tr.begin(fmt.Sprintf("%s %d %s", op, id, strings.Join(args, " ")))
	switch op {
	case "ins":
		v, _ := strconv.Atoi(args[1])
		cmd = fmt.Sprintf("ins %d %s %s", id, tl(args[0]), args[1])
		s.updates[id] = append(s.updates[id], update{false, args[0], v})
		out = safely(func() string { t.Insert(args[0], v); return "ok" })
	case "del":
		cmd = fmt.Sprintf("del %d %s", id, tl(args[0]))
		s.updates[id] = append(s.updates[id], update{true, args[0], 0})
		var before string
		if s.check15 {
			before = safely(t.Dump)
		}
		out = safely(func() string {
			if t.Delete(args[0]) {
				return "1"
			}
			return "0"
		})
		if s.check15 && out == "0" {
			if after := safely(t.Dump); after != before {
				s.tr.emit(cmd, out)
				s.tr.emit(fmt.Sprintf("assert %d unchanged-by-failed-delete", id), "changed")
				return out
			}
		}
	case "get":
		readonly = true
		cmd = fmt.Sprintf("get %d %s", id, tl(args[0]))
		out = func() string {
			return s.ro(t, func() string {
				if v, ok := t.Get(args[0]); ok {
					return strconv.Itoa(v)
				}
				return "-"
			})
		}()
	case "min", "max":
		readonly = true
		cmd = fmt.Sprintf("%s %d", op, id)
		out = s.ro(t, func() string {
			var k string
			var v int
			var ok bool
			if op == "min" {
				k, v, ok = t.Min()
			} else {
				k, v, ok = t.Max()
			}
			if !ok {
				return "-"
			}
			return k + ":" + strconv.Itoa(v)
		})
	case "size":
		readonly = true
		cmd = fmt.Sprintf("size %d", id)
		out = s.ro(t, func() string { return strconv.Itoa(t.Size()) })
		// Size() must be the number of pairs All() yields (implementation against itself)
		if n, err := strconv.Atoi(out); err == nil && s.sizeTick%4 == 0 {
			cnt := -1
			safely(func() string {
				res, _ := t.Seq([]string{"all"}, 0, 1)
				cnt = len(res[0])
				return ""
			})
			if cnt != n {
				s.tr.emit(cmd, out)
				s.tr.emit(fmt.Sprintf("assert %d size-equals-number-of-pairs-All-yields", id), fmt.Sprintf("Size=%d,All=%d", n, cnt))
				s.sizeTick++
				return out
			}
		}
		s.sizeTick++
	case "dump":
		cmd = fmt.Sprintf("dump %d", id)
		out = safely(t.Dump)
	case "seq":
		// args: selector..., stop, passes
		readonly = true
		n := len(args)
		sel := args[:n-2]
		stop, _ := strconv.Atoi(args[n-2])
		passes, _ := strconv.Atoi(args[n-1])
		tsel := append([]string{}, sel...)
		switch sel[0] {
		case "range":
			tsel[1], tsel[2] = tl(sel[1]), tl(sel[2])
		case "rangeopen":
			tsel[1] = tl(sel[1])
		}
		cmd = fmt.Sprintf("seq %d %s %d %d", id, strings.Join(tsel, " "), stop, passes)
		late := 0
		out = s.ro(t, func() string {
			res, l := t.Seq(sel, stop, passes)
			late = l
			parts := make([]string, len(res))
			for i, p := range res {
				parts[i] = renderKVs(p)
			}
			return strings.Join(parts, "|")
		})
		if late > 0 {
			s.tr.emit(cmd, out)
			s.tr.emit(fmt.Sprintf("assert %d no-callback-after-stop", id), fmt.Sprintf("late=%d", late))
			return out
		}
	case "nestseq":
		// args: selector...; judged like two complete passes
		readonly = true
		sel := args
		tsel := append([]string{}, sel...)
		switch sel[0] {
		case "range":
			tsel[1], tsel[2] = tl(sel[1]), tl(sel[2])
		case "rangeopen":
			tsel[1] = tl(sel[1])
		}
		cmd = fmt.Sprintf("nestseq %d %s", id, strings.Join(tsel, " "))
		out = s.ro(t, func() string {
			o, in := t.NestSelf(sel)
			return renderKVs(o) + "|" + renderKVs(in)
		})
	case "selfseq":
		// a sequence whose contents no specification fixes (Range over a collation tree): the implementation against
		// itself – every complete pass yields the same pairs, an abandoned pass yields their first `stop`, each
		// yielded key is stored with that value, and nothing is yielded twice
		n := len(args)
		sel := args[:n-2]
		stop, _ := strconv.Atoi(args[n-2])
		passes, _ := strconv.Atoi(args[n-1])
		if passes < 2 {
			passes = 2
		}
		tsel := append([]string{}, sel...)
		if sel[0] == "range" {
			tsel[1], tsel[2] = tl(sel[1]), tl(sel[2])
		} else if sel[0] == "rangeopen" {
			tsel[1] = tl(sel[1])
		}
		cmd = fmt.Sprintf("selfseq %d %s %d %d", id, strings.Join(tsel, " "), stop, passes)
		out = s.ro(t, func() string {
			res, late := t.Seq(sel, stop, passes)
			if late > 0 {
				return fmt.Sprintf("callback-after-stop:%d", late)
			}
			var full []kv
			haveFull := false
			for i, p := range res {
				if i%2 == 1 || stop == 0 {
					if haveFull && renderKVs(p) != renderKVs(full) {
						return fmt.Sprintf("pass-%d-differs-from-an-earlier-complete-pass:%s/%s", i, renderKVs(p), renderKVs(full))
					}
					full, haveFull = p, true
				}
			}
			for i, p := range res {
				if i%2 == 0 && stop != 0 {
					want := full
					if len(want) > stop {
						want = want[:stop]
					}
					if renderKVs(p) != renderKVs(want) {
						return fmt.Sprintf("abandoned-pass-%d-is-not-the-start-of-a-complete-pass:%s/%s", i, renderKVs(p), renderKVs(full))
					}
				}
			}
			seen := map[string]bool{}
			for _, e := range full {
				if seen[e.k] {
					return "key-yielded-twice:" + e.k
				}
				seen[e.k] = true
				if v, ok := t.Get(e.k); !ok || v != e.v {
					return "yielded-pair-is-not-stored:" + e.k
				}
			}
			// a tree built by the same updates and none of the queries answers the same (read-only calls leave no trace)
			fresh, _ := s.replica(id).Seq(sel, 0, 1)
			if renderKVs(fresh[0]) != renderKVs(full) {
				return fmt.Sprintf("differs-from-a-tree-built-by-the-same-updates-without-the-queries:%s/%s", renderKVs(full), renderKVs(fresh[0]))
			}
			return "ok"
		})
	default:
		panic("bad op " + op)
	}
	_ = readonly
	s.tr.emit(cmd, out)
	if out == "PANIC" {
		s.tr.comment("panic: " + strings.ReplaceAll(lastPanic, "\n", " "))
		s.dead[id] = true
	}
	if strings.HasPrefix(out, "CHANGED") {
		s.dead[id] = true
	}
	return out
}

// ro runs a read-only call; with check15 the raw dump must be identical before and after.
func (s *session) ro(t drvTree, f func() string) string {
	if !s.check15 {
		return safely(f)
	}
	before := safely(t.Dump)
	out := safely(f)
	if out == "PANIC" {
		return out
	}
	after := safely(t.Dump)
	if before != after {
		return "CHANGED " + out
	}
	return out
}

// ---- replay ----------------------------------------------------------------------------

// replayFile re-executes the command part of every line of a transcript / replay file.
func replayFile(path string, s *session) error {
	f, err := os.Open(path)
	if err != nil {
		return err
	}
	defer f.Close()
	sc := bufio.NewScanner(f)
	sc.Buffer(make([]byte, 1<<20), 1<<26)
	pendingSpec := map[int]string{}
	var lines []string
	for sc.Scan() {
		lines = append(lines, sc.Text())
	}
	// tree specs are in comments following the `new` line
	for _, l := range lines {
		if strings.HasPrefix(l, "# treespec ") {
			f := strings.SplitN(strings.TrimPrefix(l, "# treespec "), " ", 2)
			id, _ := strconv.Atoi(f[0])
			pendingSpec[id] = f[1]
		}
	}
	strip := func(lit string) string { // drop the sort-key part of collation literals
		if i := strings.IndexByte(lit, ':'); i >= 0 {
			return lit[:i]
		}
		return lit
	}
	for _, l := range lines {
		if l == "" || l[0] == '#' {
			continue
		}
		cmd := l
		if i := strings.Index(l, " => "); i >= 0 {
			cmd = l[:i]
		}
		f := strings.Fields(cmd)
		if f[0] == "assert" {
			continue
		}
		if f[0] == "bn" || f[0] == "fn" {
			replayNodeLine(f, s.tr)
			continue
		}
		if f[0] == "check15" {
			s.check15 = f[1] == "on"
			continue
		}
		id, _ := strconv.Atoi(f[1])
		switch f[0] {
		case "new":
			spec, ok := pendingSpec[id]
			if !ok {
				spec = defaultSpec(f[2:])
			}
			s.newTree(id, spec)
		case "ins":
			s.exec("ins", id, strip(f[2]), f[3])
		case "del", "get":
			s.exec(f[0], id, strip(f[2]))
		case "min", "max", "size", "dump":
			s.exec(f[0], id)
		case "seq", "selfseq", "nestseq":
			args := append([]string{}, f[2:]...)
			for i := range args {
				args[i] = strip(args[i])
			}
			s.exec(f[0], id, args...)
		default:
			return fmt.Errorf("replay: unknown command %q", cmd)
		}
	}
	return nil
}

func defaultSpec(k []string) string {
	switch k[0] {
	case "alpha":
		return "alpha string"
	case "coll":
		return "coll string root"
	case "num":
		return "num " + k[1]
	case "comp":
		return "comp " + k[1]
	}
	panic("bad kind")
}

// ---- histories -------------------------------------------------------------------------

type histCfg struct {
	spec     string     // tree spec
	unis     []universe // key universes (one is chosen per history, sometimes two)
	ops      int
	dumpAll  bool // dump after every mutating operation
	profile  string
	maxKeys  int
	collName string // for the C08 proviso
	numTy    string
	alpha    bool
}

type history struct {
	s       *session
	r       *rand.Rand
	id      int
	cfg     histCfg
	uni     []universe
	present map[string]string // transcript literal -> generator literal
	order   []string          // generator literals of present keys (for picking)
	nextVal int
	skipped int // inserts skipped because of the collation proviso
	feat    map[string]bool
}

func (h *history) presentList() []string { return h.order }

func (h *history) genKey() string {
	u := h.uni[h.r.Intn(len(h.uni))]
	return u.next(h.r)
}

func (h *history) probeKey() string {
	u := h.uni[h.r.Intn(len(h.uni))]
	if u.probe == nil {
		return u.next(h.r)
	}
	return u.probe(h.r, h.order)
}

// equivalentSpelling returns a different byte string that the collator cannot tell from `lit` (canonically
// equivalent spelling, or an ignorable code point inserted), if it can make one
func equivalentSpelling(r *rand.Rand, lit string) (string, bool) {
	s := string(unhex(lit))
	decomp := map[rune]string{'é': "e\u0301", 'è': "e\u0300", 'ê': "e\u0302", 'ë': "e\u0308", 'ö': "o\u0308", 'ü': "u\u0308",
		'ñ': "n\u0303", 'å': "a\u030a", 'ä': "a\u0308", 'É': "E\u0301", 'Ö': "O\u0308", 'ô': "o\u0302", 'ά': "α\u0301"}
	var sb strings.Builder
	changed := false
	for _, c := range s {
		if d, ok := decomp[c]; ok && !changed {
			sb.WriteString(d)
			changed = true
			continue
		}
		sb.WriteRune(c)
	}
	if !changed {
		rs := []rune(s)
		i := r.Intn(len(rs) + 1)
		out := string(rs[:i]) + "\u00ad" + string(rs[i:]) // soft hyphen: ignorable
		return hexLit([]byte(out)), true
	}
	return hexLit([]byte(sb.String())), true
}

func (h *history) anyKey() string {
	if h.cfg.collName != "" && len(h.order) > 0 && h.r.Intn(6) == 0 {
		if e, ok := equivalentSpelling(h.r, pick(h.r, h.order)); ok {
			h.s.tr.stats["coll-equivalent-spelling-probes"]++
			return e
		}
	}
	switch {
	case len(h.order) > 0 && h.r.Intn(2) == 0:
		return pick(h.r, h.order)
	case h.r.Intn(2) == 0:
		return h.probeKey()
	default:
		return h.genKey()
	}
}

func (h *history) canon(lit string) string { return h.s.trees[h.id].TranscriptLit(lit) }

func (h *history) insert(lit string) {
	t := h.s.trees[h.id]
	c := t.TranscriptLit(lit)
	if h.cfg.numTy != "" {
		c = canonNum(h.cfg.numTy, lit)
	}
	if _, ok := h.present[c]; !ok && h.cfg.collName != "" {
		// C08's proviso: the collator must tell the stored strings apart
		for _, p := range h.order {
			if collCompare(h.cfg.collName, p, lit) == 0 {
				h.skipped++
				h.s.tr.stats["coll-proviso-skips"]++
				return
			}
		}
		// what C08's theorem assumes of x/text's keys (`KeysOK`), measured on every stored pair
		skNew := sortKeyOf(c)
		for _, p := range h.order {
			skOld := sortKeyOf(t.TranscriptLit(p))
			h.s.tr.stats["coll-keysok-pairs"]++
			for _, pr := range [][2][]byte{{skNew, skOld}, {skOld, skNew}} {
				a, b := pr[0], pr[1]
				if bytes.HasPrefix(b, append(append([]byte{}, a...), 0, 0)) || bytes.Equal(b, append(append([]byte{}, a...), 0)) || bytes.Equal(a, b) {
					h.s.tr.emit(fmt.Sprintf("assert %d sort-keys-of-stored-strings-satisfy-KeysOK", h.id),
						fmt.Sprintf("violated:%x:%x", a, b))
				}
			}
		}
	}
	if _, ok := h.present[c]; !ok && strings.HasPrefix(h.cfg.spec, "comp ") && strings.HasSuffix(h.cfg.spec, ",r") {
		// a trailing field without terminator: the codec is inside the contract as long as no stored key starts another
		codec := schemaCodec{strings.Split(strings.Fields(h.cfg.spec)[1], ",")}
		tk, _ := codec.Transform(lit)
		for _, p := range h.order {
			ptk, _ := codec.Transform(p)
			if bytes.HasPrefix(tk, ptk) || bytes.HasPrefix(ptk, tk) {
				h.skipped++
				h.s.tr.stats["raw-tail-proviso-skips"]++
				return
			}
		}
	}
	if _, ok := h.present[c]; !ok && h.cfg.alpha {
		// byte-string keys are stored with a 0x00 terminator; the contract (known finding D3) is that no stored key
		// followed by 0x00 starts another stored key – automatic for keys without 0x00, checked for the others
		tk := append(unhex(lit), 0)
		for _, p := range h.order {
			ptk := append(unhex(p), 0)
			if bytes.HasPrefix(tk, ptk) || bytes.HasPrefix(ptk, tk) {
				h.skipped++
				h.s.tr.stats["alpha-nul-proviso-skips"]++
				return
			}
		}
	}
	h.nextVal++
	h.s.exec("ins", h.id, lit, strconv.Itoa(h.nextVal))
	if _, ok := h.present[c]; !ok {
		h.present[c] = lit
		h.order = append(h.order, lit)
	}
}

func (h *history) remove(lit string) {
	t := h.s.trees[h.id]
	c := t.TranscriptLit(lit)
	if h.cfg.numTy != "" {
		c = canonNum(h.cfg.numTy, lit)
	}
	h.s.exec("del", h.id, lit)
	if g, ok := h.present[c]; ok {
		delete(h.present, c)
		for i, x := range h.order {
			if x == g {
				h.order = append(h.order[:i], h.order[i+1:]...)
				break
			}
		}
	}
}

func (h *history) stopPasses() (string, string) {
	stop := 0
	if h.r.Intn(3) == 0 {
		stop = 1 + h.r.Intn(len(h.order)+2)
	}
	passes := 1
	if h.r.Intn(4) == 0 || (multipass && h.r.Intn(4) != 0) {
		passes = 2 + h.r.Intn(2)
	}
	return strconv.Itoa(stop), strconv.Itoa(passes)
}

// alignedRange: bounds that start to differ exactly at a byte (field) boundary of a stored key – "everything
// below this prefix", "all tuples with these leading fields"
func (h *history) alignedRange() (string, string, bool) {
	if len(h.order) == 0 {
		return "", "", false
	}
	r := h.r
	k := pick(r, h.order)
	loHi := func(f string, w int) (string, string) {
		switch f[0] {
		case 'u':
			return bitsLit(0, w), bitsLit(maskW(w), w)
		case 'i':
			return bitsLit(uint64(1)<<uint(w-1), w), bitsLit(maskW(w)>>1, w)
		}
		if w == 32 {
			return "ff800000", "7f800000"
		}
		return "fff0000000000000", "7ff0000000000000"
	}
	switch {
	case h.cfg.alpha:
		b := unhex(k)
		if len(b) == 0 {
			return "", "", false
		}
		p := b[:1+r.Intn(len(b))]
		return hexLit(p), hexLit(append(append([]byte{}, p...), 0xff, 0xff)), true
	case h.cfg.numTy != "":
		ty := h.cfg.numTy
		if ty == "f32" || ty == "f64" || k == "nan" {
			return "", "", false
		}
		w := widthOf(ty)
		if w == 8 {
			return "", "", false
		}
		v := parseBits(k, w)
		m := maskW(8 * (1 + r.Intn(w/8-1)))
		// byte-aligned block around a stored value, in the order of the encoding (two's complement blocks are
		// contiguous for signed types as well)
		return bitsLit(v&^m, w), bitsLit(v|m, w), true
	case strings.HasPrefix(h.cfg.spec, "comp"):
		fields := strings.Split(strings.Fields(h.cfg.spec)[1], ",")
		parts := strings.Split(k, ",")
		if len(fields) < 2 {
			return "", "", false
		}
		cut := 1 + r.Intn(len(fields)-1)
		lo, hi := append([]string{}, parts...), append([]string{}, parts...)
		for i := cut; i < len(fields); i++ {
			if fields[i] == "s" || fields[i] == "r" {
				lo[i], hi[i] = "-", "ffff"
				continue
			}
			lo[i], hi[i] = loHi(fields[i], widthOf(fields[i]))
		}
		for i := 0; i < cut; i++ {
			if parts[i] == "nan" {
				return "", "", false
			}
		}
		return strings.Join(lo, ","), strings.Join(hi, ","), true
	}
	return "", "", false
}

// kArg: a count for TopK/BottomK: around the size, 0, and "everything" written as a huge unsigned number
func (h *history) kArg() string {
	if h.r.Intn(8) == 0 {
		huge := []uint64{math.MaxInt64, math.MaxInt64 + 1, math.MaxUint64, math.MaxUint32, math.MaxInt32 + 1}
		if bits.UintSize == 32 {
			huge = []uint64{math.MaxInt32, math.MaxInt32 + 1, math.MaxUint32}
		}
		return strconv.FormatUint(pick(h.r, huge), 10)
	}
	return strconv.Itoa(h.r.Intn(len(h.order) + 3))
}

// rangeOK filters out the bound pairs the library gives no meaning to.
func (h *history) rangeOK(a, b string) bool {
	if ty := h.cfg.numTy; ty == "f32" || ty == "f64" {
		if isNaNLit(ty, a) || isNaNLit(ty, b) {
			return false
		}
		w := widthOf(ty)
		za, zb := parseBits(a, w), parseBits(b, w)
		sign := uint64(1) << uint(w-1)
		if (za == 0 && zb == sign) || (za == sign && zb == 0) {
			return false
		}
	}
	if strings.HasPrefix(h.cfg.spec, "comp") {
		return !strings.Contains(a, "nan") && !strings.Contains(b, "nan") || true
	}
	return true
}

func (h *history) query() {
	r := h.r
	prof := h.cfg.profile
	roll := r.Intn(100)
	isColl := strings.HasPrefix(h.cfg.spec, "coll")
	switch {
	case prof == "range" && roll < 70 || prof != "range" && prof != "prefix" && roll < 10:
		if isColl {
			// which keys lie between two collation bounds is not fixed by the properties; that the sequence can be
			// abandoned and restarted is
			a, b := h.anyKey(), h.anyKey()
			if collCompare(h.cfg.collName, a, b) > 0 {
				a, b = b, a
			}
			st, ps := h.stopPasses()
			if h.r.Intn(3) == 0 {
				h.s.exec("selfseq", h.id, "rangeopen", a, st, ps)
			} else {
				h.s.exec("selfseq", h.id, "range", a, b, st, ps)
			}
			h.s.tr.stats["coll-range-selfchecks"]++
			return
		}
		if h.cfg.alpha && r.Intn(6) == 0 {
			a := h.anyKey()
			// an empty end bound with a start above the maximum is carved out
			if mx, _, ok := h.s.trees[h.id].Max(); ok && string(unhex(a)) <= string(unhex(mx)) {
				st, ps := h.stopPasses()
				h.s.exec("seq", h.id, "rangeopen", a, st, ps)
				h.feat["rangeopen"] = true
			} else if !ok {
				st, ps := h.stopPasses()
				h.s.exec("seq", h.id, "rangeopen", a, st, ps)
			}
			return
		}
		a, b := h.anyKey(), h.anyKey()
		if r.Intn(8) == 0 {
			b = a
		}
		if x, y, ok := h.alignedRange(); ok && r.Intn(3) == 0 {
			a, b = x, y
			if r.Intn(2) == 0 {
				a, b = b, a
			}
			h.s.tr.stats["aligned-ranges"]++
		}
		if h.cfg.alpha && b == "-" {
			// an empty end bound means "open end" for byte strings; covered by rangeopen
			return
		}
		if !h.rangeOK(a, b) {
			return
		}
		if r.Intn(5) == 0 {
			// a complete Range pass (which usually ends at the first key beyond the end bound), then the same bounds
			// ranged over from inside the loop body of a pass over that same sequence value
			h.s.exec("seq", h.id, "range", a, b, "0", "1")
			h.s.exec("nestseq", h.id, "range", a, b)
			h.s.tr.stats["nested-self-passes"]++
			h.s.tr.stats["nested-range-passes"]++
			h.feat["range"] = true
			return
		}
		st, ps := h.stopPasses()
		h.s.exec("seq", h.id, "range", a, b, st, ps)
		h.feat["range"] = true
	case prof == "prefix" && roll < 70 || prof != "prefix" && roll < 18:
		if !h.cfg.alpha && !isColl {
			h.s.exec("get", h.id, h.anyKey())
			return
		}
		p := h.anyKey()
		if r.Intn(2) == 0 && p != "-" {
			b := unhex(p)
			cut := r.Intn(len(b) + 1)
			if strings.Contains(h.cfg.spec, "runes") {
				// a []rune prefix is a sequence of whole characters: cut at a character boundary
				for cut > 0 && cut < len(b) && !utf8.RuneStart(b[cut]) {
					cut--
				}
			}
			p = hexLit(b[:cut])
		}
		st, ps := h.stopPasses()
		h.s.exec("seq", h.id, "prefix", p, st, ps)
		h.feat["prefix"] = true
	case roll < 40:
		h.s.exec("get", h.id, h.anyKey())
	case roll < 48:
		h.s.exec("min", h.id)
	case roll < 56:
		h.s.exec("max", h.id)
	case roll < 66:
		h.s.exec("size", h.id)
	case roll < 76:
		if r.Intn(5) == 0 {
			sel := pick(r, [][]string{{"all"}, {"back"}, {"topk", "3"}, {"botk", "4"}})
			if (h.cfg.alpha || isColl) && r.Intn(3) == 0 && len(h.order) > 0 {
				sel = []string{"prefix", "-"} // the empty prefix: every key
				if h.cfg.alpha && r.Intn(2) == 0 {
					k := unhex(pick(r, h.order))
					sel = []string{"prefix", hexLit(k[:len(k)/2])}
				}
			}
			h.s.exec("nestseq", h.id, sel...)
			h.s.tr.stats["nested-self-passes"]++
			return
		}
		st, ps := h.stopPasses()
		h.s.exec("seq", h.id, "all", st, ps)
	case roll < 84:
		st, ps := h.stopPasses()
		h.s.exec("seq", h.id, "back", st, ps)
	case roll < 92:
		st, ps := h.stopPasses()
		h.s.exec("seq", h.id, "topk", h.kArg(), st, ps)
	default:
		st, ps := h.stopPasses()
		h.s.exec("seq", h.id, "botk", h.kArg(), st, ps)
	}
}

// mergeDance (byte-string trees, empty tree): a node4 with a compressed path of a chosen length keeps one inner
// child, so that the collapse folds parent path + branch byte + child path into the child – for path lengths
// around the inline limit and around 2^8 and 2^9.
func (h *history) mergeDance() {
	r := h.r
	for round := 0; round < 3 && !h.s.dead[h.id]; round++ {
		lp := pick(r, []int{0, 1, 8, 9, 10, 11, 12, 30, 250, 254, 255, 256, 257, 259, 260, 264, 265, 266, 300, 511, 512, 515})
		lc := pick(r, []int{0, 1, 5, 8, 9, 10, 11, 30, 250, 256})
		pre := strings.Repeat("r", lp)
		inner := pre + "a" + strings.Repeat("c", lc)
		keys := []string{hexLit([]byte(inner + "1")), hexLit([]byte(inner + "2")), hexLit([]byte(pre + "b"))}
		for _, k := range keys {
			h.insert(k)
		}
		// the surviving child is a node of any class
		for j, n := 0, pick(r, []int{0, 0, 3, 15, 47}); j < n; j++ {
			h.insert(hexLit(append([]byte(inner), byte(0x40+j))))
		}
		h.s.exec("dump", h.id)
		h.remove(keys[2])
		h.s.exec("dump", h.id)
		h.s.exec("get", h.id, keys[0])
		h.s.exec("get", h.id, keys[1])
		h.s.exec("get", h.id, keys[2])
		h.s.exec("seq", h.id, "all", "0", "1")
		h.s.exec("seq", h.id, "prefix", hexLit([]byte(pre)), "0", "1")
		h.insert(hexLit([]byte(inner + "3")))
		h.s.exec("dump", h.id)
		for len(h.order) > 0 && !h.s.dead[h.id] {
			h.remove(h.order[len(h.order)-1])
		}
		h.s.exec("size", h.id)
		h.s.tr.stats["merge-dances"]++
	}
}

// balancedUpdateDance: the same read-only calls before and after an update that leaves Size() where it was but
// raises the maximum (whatever a query remembers must not be trusted on the strength of the key count)
func (h *history) balancedUpdateDance() {
	if len(h.order) < 2 || h.s.dead[h.id] {
		return
	}
	isColl := h.cfg.collName != ""
	queries := func() {
		h.s.exec("max", h.id)
		h.s.exec("seq", h.id, "topk", "2", "0", "1")
		h.s.exec("seq", h.id, "back", "2", "1")
		if mn, _, ok := h.s.trees[h.id].Min(); ok {
			switch {
			case isColl:
				h.s.exec("selfseq", h.id, "rangeopen", mn, "0", "2")
			case h.cfg.alpha:
				h.s.exec("seq", h.id, "rangeopen", mn, "0", "1")
			}
		}
		h.s.exec("size", h.id)
	}
	queries()
	mx, _, ok := h.s.trees[h.id].Max()
	if !ok {
		return
	}
	h.remove(pick(h.r, h.order))
	before := len(h.order)
	switch {
	case isColl || h.cfg.alpha:
		h.insert(hexLit(append(unhex(mx), 'z')))
	default:
		h.insert(h.genKey())
	}
	if len(h.order) == before {
		h.insert(h.genKey())
	}
	queries()
	h.s.tr.stats["balanced-update-dances"]++
}

// coincidenceDance (collation trees, empty tree): two strings sharing all but their last letter, and a beginning of
// them whose (terminated) collation key is exactly as long as what the two share – an absent key that runs out
// precisely where the compressed path ends – plus the neighbouring lengths.
func (h *history) coincidenceDance() {
	t := h.s.trees[h.id]
	tkeyLen := func(lit string) int { return len(sortKeyOf(t.TranscriptLit(lit))) + 2 }
	base := "kzqmvhtrlcwpdgbnysfjxaeoiu" + "kzqmvhtrlcwpdgbnysfjxaeoiu"
	done := 0
	for n := 8; n < 44 && done < 2 && !h.s.dead[h.id]; n++ {
		s1, s2 := hexLit([]byte(base[:n-1]+"e")), hexLit([]byte(base[:n-1]+"o"))
		k1, k2 := sortKeyOf(t.TranscriptLit(s1)), sortKeyOf(t.TranscriptLit(s2))
		shared := 0
		for shared < len(k1) && shared < len(k2) && k1[shared] == k2[shared] {
			shared++
		}
		for m := 5; m < n-1; m++ {
			if tkeyLen(hexLit([]byte(base[:m]))) != shared {
				continue
			}
			h.insert(s1)
			h.insert(s2)
			for _, mm := range []int{m, m - 1, m + 1} {
				p := hexLit([]byte(base[:mm]))
				h.s.exec("get", h.id, p)
				h.remove(p)
			}
			h.s.exec("dump", h.id)
			h.remove(s1)
			h.remove(s2)
			done++
			h.s.tr.stats["coincidence-dances"]++
			break
		}
	}
}

// singletonDance: the tree holds no key or exactly one; every branch that treats the root leaf specially is taken
// with queries interleaved (which must not matter)
func (h *history) singletonDance() {
	if h.s.dead[h.id] {
		return
	}
	k := h.genKey()
	if h.cfg.collName != "" {
		for _, p := range h.order {
			if collCompare(h.cfg.collName, p, k) == 0 {
				return
			}
		}
	}
	h.insert(k)
	h.s.exec("get", h.id, k)
	h.s.exec("min", h.id)
	h.remove(k)
	h.s.exec("size", h.id)
	h.insert(k)
	h.s.exec("get", h.id, k)
	h.s.exec("seq", h.id, "all", "0", "2")
	h.s.exec("size", h.id)
	h.remove(k)
	h.remove(k)
	h.s.exec("dump", h.id)
	h.insert(k)
	h.s.exec("size", h.id)
	h.s.tr.stats["singleton-dances"]++
}

func (h *history) run() {
	r := h.r
	ops := h.cfg.ops
	if len(h.order) == 0 {
		if (h.cfg.alpha || h.cfg.collName != "") && h.r.Intn(2) == 0 {
			// the empty string as the very first key of a tree, before the tree has seen anything else
			h.s.exec("get", h.id, "-")
			h.insert("-")
			h.s.exec("get", h.id, "-")
			h.insert(h.genKey())
			h.s.exec("get", h.id, "-")
			h.s.exec("min", h.id)
			h.s.exec("seq", h.id, "all", "0", "1")
			h.s.exec("size", h.id)
			h.s.exec("dump", h.id)
			h.remove("-")
			h.s.exec("get", h.id, "-")
			for len(h.order) > 0 {
				h.remove(h.order[0])
			}
			h.s.tr.stats["empty-key-first"]++
		}
		h.singletonDance()
		if h.cfg.alpha && h.r.Intn(2) == 0 {
			for len(h.order) > 0 {
				h.remove(h.order[0])
			}
			h.mergeDance()
		}
		if h.cfg.collName != "" {
			for len(h.order) > 0 {
				h.remove(h.order[0])
			}
			h.coincidenceDance()
		}
	}
	phaseLeft := 0
	phase := "grow"
	for i := 0; i < ops && !h.s.dead[h.id]; i++ {
		if phaseLeft == 0 {
			phase = pick(r, []string{"grow", "grow", "shrink", "churn", "query"})
			if len(h.order) == 0 {
				phase = "grow"
			}
			phaseLeft = 5 + r.Intn(ops/4+5)
			h.feat["phase:"+phase] = true
		}
		phaseLeft--
		mut := false
		roll := r.Intn(100)
		var pIns, pDel int
		switch phase {
		case "grow":
			pIns, pDel = 65, 5
		case "shrink":
			pIns, pDel = 5, 65
		case "churn":
			pIns, pDel = 35, 35
		case "query":
			pIns, pDel = 3, 3
		}
		if len(h.order) >= h.cfg.maxKeys {
			pIns = 2
		}
		switch {
		case roll < pIns:
			k := h.genKey()
			if r.Intn(8) == 0 && len(h.order) > 0 {
				k = pick(r, h.order) // overwrite
			}
			h.insert(k)
			mut = true
		case roll < pIns+pDel:
			k := h.anyKey()
			if len(h.order) > 0 && r.Intn(5) != 0 {
				k = pick(r, h.order)
			}
			h.remove(k)
			mut = true
		default:
			if r.Intn(25) == 0 {
				h.balancedUpdateDance()
			} else {
				h.query()
			}
		}
		if mut {
			if h.cfg.dumpAll || r.Intn(10) == 0 {
				h.s.exec("dump", h.id)
			}
			if r.Intn(3) == 0 {
				h.s.exec("size", h.id)
			}
		}
	}
	h.balancedUpdateDance()
	if !h.s.dead[h.id] {
		h.probeSweep()
	}
	if !h.s.dead[h.id] {
		h.s.exec("dump", h.id)
		h.s.exec("size", h.id)
		h.s.exec("seq", h.id, "all", "0", "1")
		h.s.exec("seq", h.id, "back", "0", "1")
		// drain: delete everything in random order, then the emptied tree must behave like a new one
		if r.Intn(3) == 0 {
			keys := append([]string{}, h.order...)
			r.Shuffle(len(keys), func(i, j int) { keys[i], keys[j] = keys[j], keys[i] })
			for _, k := range keys {
				h.remove(k)
				if h.cfg.dumpAll {
					h.s.exec("dump", h.id)
				}
			}
			h.s.exec("dump", h.id)
			h.s.exec("size", h.id)
			h.s.exec("min", h.id)
			h.s.exec("seq", h.id, "all", "0", "2")
			h.s.exec("seq", h.id, "topk", "3", "0", "1")
			if h.cfg.alpha || h.cfg.numTy != "" || strings.HasPrefix(h.cfg.spec, "comp") {
				a, b := h.genKey(), h.genKey()
				if h.rangeOK(a, b) && !(h.cfg.alpha && b == "-") {
					h.s.exec("seq", h.id, "range", a, b, "0", "1")
				}
			}
			h.feat["drained"] = true
			h.singletonDance()
			for j := 0; j < 6; j++ {
				h.insert(h.genKey())
			}
			h.s.exec("dump", h.id)
			h.s.exec("seq", h.id, "all", "0", "1")
		}
	}
}

// fanKeys returns a function from a branch byte to a key literal such that all 256 keys are siblings below one
// inner node (nil when the kind has no such family for this variant).
var fanHan = false // the next collation fan is over consecutive Han characters

var fanLongPre = 0 // >0: the next byte-string fan sits below a compressed path of that many bytes

func fanKeys(spec string, r *rand.Rand) func(b int) string {
	f := strings.Fields(spec)
	switch f[0] {
	case "alpha":
		pre := pick(r, []string{"", "ab", strings.Repeat("p", 9), strings.Repeat("p", 10), strings.Repeat("p", 13)})
		if fanLongPre > 0 {
			// (a first letter of its own per length: the long run is ONE node's path, not split by an earlier fan's keys)
			pre = string(rune('L'+fanLongPre%7)) + strings.Repeat("q", fanLongPre)
		}
		tail := pick(r, []string{"", "x", "xy"})
		return func(b int) string {
			if b == 0 {
				return hexLit([]byte(pre)) // the terminator is the 256th sibling
			}
			return hexLit(append(append([]byte(pre), byte(b)), tail...))
		}
	case "coll":
		// neighbouring characters of one script in one position: sort keys that branch widely at one depth
		base := pick(r, []rune{0x4E00, 0x0400, 0x3040, 0xAC00, 0x0100})
		if fanHan {
			base = 0x4E00 // consecutive Han characters: sort keys that differ in one byte – one node of up to 256 children
		}
		pre := pick(r, []string{"", "a", "语"})
		return func(b int) string { return hexLit([]byte(pre + string(base+rune(b)))) }
	case "num":
		ty := f[1]
		if ty == "f32" || ty == "f64" {
			return nil
		}
		w := widthOf(ty)
		pos := r.Intn(w / 8) // which byte varies (0 = least significant)
		base := r.Uint64() & maskW(w) &^ (uint64(0xff) << uint(8*pos))
		return func(b int) string { return bitsLit(base|uint64(b)<<uint(8*pos), w) }
	case "comp":
		fields := strings.Split(f[1], ",")
		us := compUniverses(fields)
		baseParts := strings.Split(us[0].next(r), ",")
		// vary the first numeric field's low byte
		for i, fd := range fields {
			if fd == "s" || fd == "r" || fd == "f32" || fd == "f64" {
				continue
			}
			w := widthOf(fd)
			i := i
			base := parseBits(baseParts[i], w) &^ 0xff
			return func(b int) string {
				parts := append([]string{}, baseParts...)
				parts[i] = bitsLit(base|uint64(b), w)
				return strings.Join(parts, ",")
			}
		}
	}
	return nil
}

var boundaryBytes = []int{0x00, 0x01, 0x7f, 0x80, 0xfe, 0xff}

// classDance fills one inner node to exactly the capacity of its class, shrinks it into the class below with the
// old maximum among the victims, and then – before anything else touches the node – deletes and looks up the
// deleted keys again, and inserts between the survivors and the old maximum. A slot or lane that outlives its
// child shows here and nowhere else.
func (h *history) classDance(key func(b int) string) {
	r := h.r
	capN := pick(r, []int{16, 16, 48, 4})
	low := map[int]int{16: 3, 48: 12, 4: 2}[capN]
	bytes := r.Perm(256)[:capN]
	if h.cfg.alpha {
		for i, b := range bytes {
			if b == 0 {
				bytes[i] = 1 + r.Intn(255) // the terminator sibling is the fan-out history's business
			}
		}
	}
	live := map[int]bool{}
	for _, b := range bytes {
		if !live[b] {
			live[b] = true
			h.insert(key(b))
		}
	}
	h.s.exec("dump", h.id)
	sorted := func() []int {
		var ks []int
		for b := range live {
			ks = append(ks, b)
		}
		sort.Ints(ks)
		return ks
	}
	oldMax := sorted()[len(live)-1]
	var gone []int
	del := func(b int) {
		h.remove(key(b))
		delete(live, b)
		gone = append(gone, b)
	}
	if r.Intn(2) == 0 {
		del(oldMax)
	}
	for len(live) > low && !h.s.dead[h.id] {
		ks := sorted()
		if live[oldMax] && len(live) == low+1 {
			del(oldMax)
		} else {
			del(ks[r.Intn(len(ks)-1)])
		}
	}
	after := func() {
		h.s.exec("dump", h.id)
		h.s.exec("size", h.id)
		h.s.exec("min", h.id)
		h.s.exec("max", h.id)
		h.s.exec("seq", h.id, "all", "0", "1")
		h.s.exec("seq", h.id, "back", "0", "1")
	}
	after()
	// the deleted keys are absent: look them up and delete them again (each a no-op), the old maximum first
	for i := len(gone) - 1; i >= 0 && !h.s.dead[h.id]; i-- {
		h.s.exec("get", h.id, key(gone[i]))
		h.remove(key(gone[i]))
		if i%4 == 0 {
			h.s.exec("size", h.id)
		}
	}
	after()
	for round := 0; round < 3 && !h.s.dead[h.id]; round++ {
		if len(live) > 2 {
			ks := sorted()
			del(ks[r.Intn(len(ks))])
			after()
		}
		ks := sorted()
		top := ks[len(ks)-1]
		if top < oldMax {
			e := top + 1 + r.Intn(oldMax-top)
			live[e] = true
			h.insert(key(e))
			h.s.exec("get", h.id, key(e))
			after()
		}
		for _, b := range gone {
			if !live[b] {
				h.s.exec("get", h.id, key(b))
			}
		}
	}
	// down to one key, looking at the extremes on the way
	for len(live) > 1 && !h.s.dead[h.id] {
		ks := sorted()
		del(ks[len(ks)-1-r.Intn(2)%len(ks)])
		h.s.exec("min", h.id)
		h.s.exec("max", h.id)
		h.s.exec("dump", h.id)
	}
	h.s.tr.stats[fmt.Sprintf("class-dances-%d", capN)]++
}

// twinOf: a key that shares with `lit` everything up to and including the byte the fan varies, and more, but not all –
// inserted next to `lit` it turns the fan node's child into an inner node with a compressed path of its own.
func twinOf(spec, lit string) (string, bool) {
	f := strings.Fields(spec)
	switch f[0] {
	case "alpha", "coll":
		if lit == "-" {
			return "", false
		}
		return hexLit(append(unhex(lit), "tw2"...)), true
	case "comp":
		fields := strings.Split(f[1], ",")
		parts := strings.Split(lit, ",")
		i := len(parts) - 1
		switch fd := fields[i]; fd {
		case "s", "r":
			parts[i] = hexLit(append(unhex(parts[i]), "tw2"...))
		case "f32", "f64":
			return "", false
		default:
			if i == 0 {
				return "", false
			}
			w := widthOf(fd)
			parts[i] = bitsLit(parseBits(parts[i], w)^1, w)
		}
		return strings.Join(parts, ","), true
	}
	return "", false
}

// runFan drives one inner node through every size class upward and downward, keeping the boundary bytes
// among the survivors so that every grow/shrink conversion has to carry them over.
func (h *history) runFan(key func(b int) string) {
	r := h.r
	var in []int
	inSet := map[int]bool{}
	check := func() {
		h.s.exec("dump", h.id)
		h.s.exec("size", h.id)
		h.s.exec("seq", h.id, "all", "0", "1")
		h.s.exec("seq", h.id, "back", "0", "1")
		h.s.exec("min", h.id)
		h.s.exec("max", h.id)
		// bounded walks at every fan-out (a count that is smaller than, equal to and larger than the fan-out)
		h.s.exec("seq", h.id, "topk", strconv.Itoa(1+r.Intn(4)), "0", "1")
		h.s.exec("seq", h.id, "botk", strconv.Itoa(1+r.Intn(4)), "0", "1")
		h.s.exec("seq", h.id, "topk", strconv.Itoa(len(h.order)+r.Intn(2)), "0", "1")
		h.s.exec("seq", h.id, "botk", strconv.Itoa(len(h.order)+r.Intn(2)), "0", "1")
		for _, b := range boundaryBytes {
			h.s.exec("get", h.id, key(b))
		}
		if h.cfg.alpha || h.cfg.numTy != "" || strings.HasPrefix(h.cfg.spec, "comp") {
			a, b := key(boundaryBytes[r.Intn(len(boundaryBytes))]), key(r.Intn(256))
			if !(h.cfg.alpha && b == "-") {
				h.s.exec("seq", h.id, "range", a, b, "0", "1")
			}
		}
		if h.cfg.alpha && key(1) != "-" {
			p := unhex(key(1))
			h.s.exec("seq", h.id, "prefix", hexLit(p[:len(p)-1-r.Intn(len(p))%len(p)]), "0", "1")
		}
		// a few children become inner nodes for a moment (a twin next to the member), with ranges that lie entirely
		// below them: the scan has to carry the right depth through a node of this class
		tw := 0
		for _, m := range in {
			if tw >= 4 || !inSet[m] || h.s.dead[h.id] {
				break
			}
			twin, ok := twinOf(h.cfg.spec, key(m))
			if !ok || r.Intn(3) != 0 {
				continue
			}
			if _, present := h.present[h.canonKey(twin)]; present {
				continue
			}
			tw++
			h.insert(twin)
			h.s.exec("get", h.id, twin)
			if h.cfg.alpha || strings.HasPrefix(h.cfg.spec, "comp") {
				h.s.exec("seq", h.id, "range", key(m), twin, "0", "1")
				h.s.exec("seq", h.id, "range", twin, key(m), "2", "2")
			}
			if h.cfg.alpha {
				h.s.exec("seq", h.id, "prefix", key(m), "0", "1")
			}
			h.s.exec("seq", h.id, "back", "3", "1")
			h.remove(twin)
			h.s.tr.stats["fan-twins"]++
		}
		// updates through the node as it is now: an overwrite (nothing but the value changes), a delete and the
		// same key again
		if len(h.order) > 0 {
			k := pick(r, h.order)
			h.insert(k)
			h.s.exec("size", h.id)
			h.remove(k)
			h.s.exec("size", h.id)
			h.insert(k)
			h.s.exec("size", h.id)
			h.s.exec("get", h.id, k)
		}
	}
	target := pick(r, []int{256, 256, 60, 49, 48, 17})
	perm := r.Perm(256)
	add := func(b int) {
		if !inSet[b] && !h.s.dead[h.id] {
			inSet[b] = true
			in = append(in, b)
			h.insert(key(b))
		}
	}
	for _, b := range boundaryBytes {
		add(b)
	}
	for _, b := range perm {
		if len(in) >= target {
			break
		}
		add(b)
		if n := len(in); n == 5 || n == 17 || n == 49 {
			check()
		}
		if n := len(in); n == 4 || n == 16 || n == 48 || n == 256 {
			// a class filled to the last slot: every member is looked up
			for _, m := range in {
				h.s.exec("get", h.id, key(m))
			}
			h.s.tr.stats["fan-full-class-sweeps"]++
		}
	}
	check()
	isBoundary := func(b int) bool {
		for _, x := range boundaryBytes {
			if x == b {
				return true
			}
		}
		return false
	}
	// delete the ordinary bytes first, in random order
	regrown := false
	order := r.Perm(len(in))
	for _, i := range order {
		b := in[i]
		if isBoundary(b) || h.s.dead[h.id] {
			continue
		}
		h.remove(key(b))
		delete(inSet, b)
		if n := len(inSet); n == 38 || n == 37 || n == 36 || n == 13 || n == 12 || n == 11 || n == 7 {
			check()
		}
		if len(inSet) == 30 && !regrown {
			regrown = true
			// re-grow across the 48/49 boundary once more
			for _, nb := range r.Perm(256) {
				if len(inSet) >= 52 {
					break
				}
				if !inSet[nb] {
					inSet[nb] = true
					in = append(in, nb)
					h.insert(key(nb))
				}
			}
			check()
		}
	}
	// what is left are boundary bytes (and re-grown ones): remove down to the collapse
	for b := range inSet {
		if !isBoundary(b) {
			h.remove(key(b))
			delete(inSet, b)
		}
	}
	check()
	for _, b := range boundaryBytes {
		if len(inSet) <= 1 {
			break
		}
		h.remove(key(b))
		delete(inSet, b)
		check()
	}
	h.feat["phase:grow"], h.feat["phase:shrink"] = true, true
	h.s.tr.stats["fan-histories"]++
}

// probeSweep looks up (and tries to delete) keys that differ from a stored key in exactly one byte, for every
// byte position: absent keys that diverge inside, at the end of, or beyond a compressed path.
func (h *history) probeSweep() {
	if len(h.order) == 0 {
		return
	}
	r := h.r
	if h.cfg.alpha || h.cfg.collName != "" {
		// every beginning of a stored string, looked up and deleted: probes that end inside or exactly at the end of
		// a compressed path, whatever the lengths involved
		ks := append([]string{}, h.order...)
		r.Shuffle(len(ks), func(i, j int) { ks[i], ks[j] = ks[j], ks[i] })
		for n, k := range ks {
			if n >= 10 || h.s.dead[h.id] {
				break
			}
			rs := []rune(string(unhex(k)))
			if h.cfg.alpha {
				rs = nil
				for _, b := range unhex(k) {
					rs = append(rs, rune(b))
				}
			}
			step := 1 + len(rs)/48
			for cut := len(rs) - 1; cut >= 0 && !h.s.dead[h.id]; cut -= step {
				var p string
				if h.cfg.alpha {
					bs := make([]byte, cut)
					for i := range bs {
						bs[i] = byte(rs[i])
					}
					p = hexLit(bs)
				} else {
					p = hexLit([]byte(string(rs[:cut])))
				}
				if _, ok := h.present[h.canonKey(p)]; ok {
					continue
				}
				h.s.exec("get", h.id, p)
				h.remove(p)
				h.s.tr.stats["prefix-probes"]++
			}
		}
	}
	keys := append([]string{}, h.order...)
	r.Shuffle(len(keys), func(i, j int) { keys[i], keys[j] = keys[j], keys[i] })
	if len(keys) > 8 {
		keys = keys[:8]
	}
	isComp := strings.HasPrefix(h.cfg.spec, "comp")
	var fields []string
	if isComp {
		fields = strings.Split(strings.Fields(h.cfg.spec)[1], ",")
	}
	probe := func(m string, i int) {
		if strings.Contains(h.cfg.spec, "runes") && !utf8.Valid(unhex(m)) {
			return // not a []rune value: Go's own string([]rune) conversion would alter it
		}
		if _, ok := h.present[h.canonKey(m)]; ok {
			return
		}
		h.s.exec("get", h.id, m)
		if i%3 == 0 {
			h.remove(m)
			h.s.exec("size", h.id)
		}
		h.s.tr.stats["probe-sweep"]++
	}
	flip := func(b []byte, i int, noZero bool) []byte {
		c := append([]byte{}, b...)
		c[i] ^= byte(1 + r.Intn(3))
		if c[i] == 0 && noZero {
			c[i] = 0x7e
		}
		return c
	}
	// Range with a bound that differs from a stored key in exactly one byte (possibly a byte of a compressed path
	// that the node does not store): against the stored key itself, against another stored key, and against the
	// same mutation of another stored key (both bounds absent, their common beginning runs through the mutated byte)
	canRange := h.cfg.collName == "" && !strings.HasPrefix(h.cfg.spec, "coll")
	rangeProbe := func(m, orig string, mutate func(other string) (string, bool)) {
		if !canRange || h.s.dead[h.id] || m == "-" {
			return
		}
		others := []string{orig, pick(r, h.order)}
		if o := pick(r, h.order); o != orig {
			if mo, ok := mutate(o); ok {
				others = append(others, mo)
			}
		}
		for _, o := range others {
			a, b := m, o
			if r.Intn(2) == 0 {
				a, b = b, a
			}
			if (h.cfg.alpha && b == "-") || !h.rangeOK(a, b) {
				continue
			}
			h.s.exec("seq", h.id, "range", a, b, "0", "1")
			h.s.tr.stats["range-probe-sweep"]++
		}
	}
	for _, lit := range keys {
		if h.s.dead[h.id] {
			return
		}
		if isComp {
			parts := strings.Split(lit, ",")
			n := 0
			for fi, part := range parts {
				if part == "nan" || part == "-" {
					continue
				}
				b := unhex(part)
				for i := 0; i < len(b) && n < 48; i++ {
					mp := append([]string{}, parts...)
					mp[fi] = hexLit(flip(b, i, fields[fi] == "s" || fields[fi] == "r"))
					if fields[fi] == "f32" || fields[fi] == "f64" {
						mp[fi] = canonNum(fields[fi], mp[fi])
					}
					probe(strings.Join(mp, ","), n)
					if n%2 == 0 && mp[fi] != "nan" && mp[fi] != "-" {
						fi, i := fi, i
						x := mp[fi]
						rangeProbe(strings.Join(mp, ","), lit, func(other string) (string, bool) {
							op := strings.Split(other, ",")
							if len(op) != len(parts) || op[fi] == "nan" || op[fi] == "-" || len(unhex(op[fi])) <= i {
								return "", false
							}
							ob := unhex(op[fi])
							ob[i] = unhex(x)[i]
							op[fi] = hexLit(ob)
							if fields[fi] == "f32" || fields[fi] == "f64" {
								op[fi] = canonNum(fields[fi], op[fi])
							}
							return strings.Join(op, ","), true
						})
					}
					n++
				}
			}
			continue
		}
		if lit == "nan" || lit == "-" {
			continue
		}
		b := unhex(lit)
		for i := 0; i < len(b) && i < 48 && !h.s.dead[h.id]; i++ {
			m := hexLit(flip(b, i, h.cfg.alpha))
			if h.cfg.numTy != "" {
				m = canonNum(h.cfg.numTy, m)
			}
			probe(m, i)
			if i%2 == 0 && m != "nan" && m != "-" {
				i := i
				mb := unhex(m)
				rangeProbe(m, lit, func(other string) (string, bool) {
					if other == "nan" || other == "-" || len(mb) <= i {
						return "", false
					}
					ob := unhex(other)
					if len(ob) <= i {
						return "", false
					}
					ob[i] = mb[i]
					o := hexLit(ob)
					if h.cfg.numTy != "" {
						o = canonNum(h.cfg.numTy, o)
					}
					return o, true
				})
			}
		}
	}
}

// sortKeyOf extracts the sort key bytes from a collation transcript literal "orig:sortkey"
func sortKeyOf(tlit string) []byte {
	if i := strings.IndexByte(tlit, ':'); i >= 0 {
		return unhex(tlit[i+1:])
	}
	return nil
}

func (h *history) canonKey(lit string) string {
	c := h.s.trees[h.id].TranscriptLit(lit)
	if h.cfg.numTy != "" {
		c = canonNum(h.cfg.numTy, lit)
	}
	return c
}

// treeSpecs enumerates (spec, universes, metadata) for a kind family.
func histCfgsFor(family string, r *rand.Rand) []histCfg {
	var out []histCfg
	switch family {
	case "alpha":
		for _, kt := range []string{"string", "bytes"} {
			out = append(out, histCfg{spec: "alpha " + kt, unis: alphaUniverses(), alpha: true})
		}
	case "unsigned":
		for _, ty := range []string{"u8", "u16", "u32", "u64", "uint"} {
			out = append(out, histCfg{spec: "num " + ty, unis: numUniverses(ty), numTy: ty})
		}
	case "signed":
		for _, ty := range []string{"i8", "i16", "i32", "i64", "int"} {
			out = append(out, histCfg{spec: "num " + ty, unis: numUniverses(ty), numTy: ty})
		}
	case "float":
		for _, ty := range []string{"f32", "f64"} {
			out = append(out, histCfg{spec: "num " + ty, unis: numUniverses(ty), numTy: ty})
		}
	case "coll":
		for i, c := range collCfgs {
			for _, kt := range []string{"string", "bytes"} {
				out = append(out, histCfg{spec: "coll " + kt + " " + c.name, unis: collUniverses(), collName: c.name})
				if i == 0 && kt == "string" {
					out = append(out, histCfg{spec: "coll runes root", unis: collUniverses(), collName: "root"})
				}
			}
		}
	case "comp":
		for i := 0; i < 6; i++ {
			fs := randSchema(r)
			// two schemas whose keys are longer than the inline limit are always present
			// (and the one-byte codecs lead a tuple in every run: what they hand out is appended to)
			if i == 0 {
				fs = pick(r, [][]string{{"u8", "u64", "u64"}, {"u8", "i64", "u64"}, {"u8", "u32", "i64", "u32"}})
			} else if i == 1 {
				fs = pick(r, [][]string{{"i32", "u8", "r"}, {"i8", "r"}, {"u32", "r"}, {"u16", "r"}}) // a tail without terminator
			} else if i == 2 {
				fs = pick(r, [][]string{{"i8", "u16"}, {"i8", "i64", "u32"}, {"i8", "u8", "s"}})
			} else if i == 3 {
				fs = pick(r, [][]string{{"u16", "s"}, {"u64", "s"}, {"i32", "u8", "s"}})
			}
			out = append(out, histCfg{spec: "comp " + strings.Join(fs, ","), unis: compUniverses(fs)})
		}
	}
	return out
}

var families = []string{"alpha", "unsigned", "signed", "float", "coll", "comp"}

type treeRunCfg struct {
	seed     int64
	families []string
	hists    int // histories per family
	ops      int
	profile  string
	dumpAll  bool
	check15  bool
	multi    int // >1: interleave this many trees per history group (C12)
	maxKeys  int
}

func runTreeMode(cfg treeRunCfg, tr *transcript) {
	r := rand.New(rand.NewSource(cfg.seed))
	s := newSession(tr)
	s.check15 = cfg.check15
	if cfg.check15 {
		tr.w.WriteString("check15 on => ok\n")
	}
	nextID := 0
	var feats []map[string]bool
	for _, fam := range cfg.families {
		cfgs := histCfgsFor(fam, r)
		if famSpec := map[string]string{"alpha": "alpha bytes", "unsigned": "num u16", "signed": "num i32", "coll": "coll string root"}[fam]; famSpec != "" {
			// nodes released by one tree and picked up by the next, both within this family
			for k := 0; k < 2; k++ {
				poolDance(s, r, &nextID, famSpec)
			}
		}
		hists := cfg.hists
		if fam == "alpha" {
			hists += cfg.hists/2 + 1 // twenty key universes: more of them in every run
		}
		for i := 0; i < hists; i++ {
			hc := cfgs[i%len(cfgs)]
			if i >= len(cfgs) {
				hc = pick(r, cfgs)
			}
			hc.ops = cfg.ops/2 + r.Intn(cfg.ops)
			hc.profile = cfg.profile
			hc.dumpAll = cfg.dumpAll
			hc.maxKeys = cfg.maxKeys
			if r.Intn(4) == 0 {
				hc.maxKeys = 12 // small trees: shrink thresholds and collapses happen often
			}
			nextID++
			s.newTree(nextID, hc.spec)
			h := &history{s: s, r: r, id: nextID, cfg: hc, present: map[string]string{}, feat: map[string]bool{}}
			// rotate through the universes so that a handful of histories already covers all of them over the seeds
			h.uni = []universe{hc.unis[(i+int(cfg.seed)*7+len(fam))%len(hc.unis)]}
			if fam == "alpha" && i == 0 {
				// every run has one history over long shared runs
				for _, u := range hc.unis {
					if strings.HasPrefix(u.name, "U5stems") && (int(cfg.seed)%3 == 0 || u.name != "U5stems11") {
						h.uni = []universe{u}
						break
					}
				}
			}
			if fam == "alpha" && i == 3 {
				// and one over the byte values at the edges of the range
				for _, u := range hc.unis {
					if u.name == "U3edge" || u.name == "U4fan1" {
						h.uni = append(h.uni, u)
					}
				}
			}
			if fam == "alpha" && i == 1 {
				// every run has one history whose keys contain and end in 0x00
				for _, u := range hc.unis {
					if u.name == "U7nul" {
						h.uni = append(h.uni, u, u)
					}
				}
			}
			if fam == "comp" && i < 2 {
				// the long schemas: one history over clusters (a few long compressed paths with branch points beyond the
				// inline limit – not mixed with anything that would split them), one with a branch point at every depth
				h.uni = []universe{hc.unis[1+i]}
				if i == 0 {
					h.uni = []universe{hc.unis[3]}
				}
			}
			if hc.numTy != "" {
				// the special values of the type (extremes, sign boundary, zeros, subnormals, infinities, NaN) are
				// part of every numeric history
				for _, u := range hc.unis {
					if strings.HasSuffix(u.name, "-specials") && u.name != h.uni[0].name {
						h.uni = append(h.uni, u)
					}
				}
			}
			if r.Intn(3) == 0 {
				h.uni = append(h.uni, pick(r, hc.unis))
			}
			if fk := fanKeys(hc.spec, r); fk != nil && i%3 == 2 {
				tr.comment(fmt.Sprintf("history tree=%d spec=%q fan-out", nextID, hc.spec))
				h.classDance(fk)
				for len(h.order) > 0 && !s.dead[nextID] {
					h.remove(h.order[len(h.order)-1])
				}
				h.runFan(fk)
				if fam == "coll" {
					fanHan = true
					fk2 := fanKeys(hc.spec, r)
					fanHan = false
					h.runFan(fk2)
				}
				if fam == "alpha" {
					// and once more below a long compressed path, and below one of more than 2^8 bytes
					for _, L := range []int{pick(r, []int{11, 13, 22}), 258} {
						fanLongPre = L
						fk2 := fanKeys(hc.spec, r)
						fanLongPre = 0
						h.runFan(fk2)
					}
				}
			} else {
				tr.comment(fmt.Sprintf("history tree=%d spec=%q universe=%s ops=%d", nextID, hc.spec, h.uni[0].name, hc.ops))
				tr.stats["uni:"+h.uni[0].name]++
				h.run()
			}
			feats = append(feats, h.feat)
			delete(s.trees, nextID)
		}
	}
	nontrivial := 0
	for _, f := range feats {
		if f["phase:grow"] && (f["phase:shrink"] || f["phase:churn"]) {
			nontrivial++
		}
	}
	tr.stats["histories"] = len(feats)
	tr.stats["histories-with-grow-and-shrink"] = nontrivial
}

var rogueTrees []drvTree

// rogueStep performs out-of-contract operations on private trees whose own results are not judged.
func rogueStep(r *rand.Rand) {
	if len(rogueTrees) < 3 {
		rogueTrees = append(rogueTrees, newTree("alpha bytes"), newTree("alpha string"), newTree("comp u8,s"),
			newTree("coll string ignorecase"), newTree("coll bytes root"))
	}
	if r.Intn(3) == 0 {
		// collation trees fed spellings their collator cannot tell apart (outside C08's proviso): same letters in
		// another case under IgnoreCase, composed and decomposed accents under the root collator
		safely(func() string {
			t := rogueTrees[3+r.Intn(2)]
			w := string(randBytes(r, []byte("abcde"), 1, 3))
			pairs := [][2]string{{w, strings.ToUpper(w)}, {w + "\u00e9", w + "e\u0301"}, {w + "x", w + "X"}}
			pr := pairs[r.Intn(len(pairs))]
			t.Insert(hexLit([]byte(pr[0])), 1)
			t.Insert(hexLit([]byte(pr[1])), 2)
			t.Insert(hexLit([]byte(w+"q")), 3)
			t.Insert(hexLit(randBytes(r, []byte("abcde"), 1, 3)), 4)
			t.Get(hexLit([]byte(pr[1])))
			if r.Intn(2) == 0 {
				t.Delete(hexLit([]byte(pr[0])))
			}
			return ""
		})
		return
	}
	safely(func() string {
		t := rogueTrees[r.Intn(2)]
		base := randBytes(r, []byte("ab"), 1, 3)
		// keys that are prefixes of one another once terminated: k, k·00·x, k·00·y …
		for i := 0; i < 4; i++ {
			k := append(append(append([]byte{}, base...), 0), randBytes(r, []byte("xy\x00"), 0, 3)...)
			t.Insert(hexLit(k), i)
		}
		t.Insert(hexLit(base), 9)
		t.Insert(hexLit(append(append([]byte{}, base...), 0)), 9)
		t.Get(hexLit(base))
		if r.Intn(2) == 0 {
			t.Delete(hexLit(base))
		}
		return ""
	})
}

// recycleDance: an inner node with a long compressed path is built, visited and released in one tree, and the very
// next node of that class is built in another tree (or in the same tree, emptied) with a different long path that
// agrees with the first on the ten inline bytes only; then a key that diverges beyond byte ten is routed through it.
// Whatever the released node (or anything keyed by its address) remembers of its previous life decides wrongly here.
func recycleDance(s *session, r *rand.Rand, nextID *int) {
	kind := pick(r, []string{"alpha string", "alpha bytes"})
	mk := func() *history {
		*nextID++
		s.newTree(*nextID, kind)
		return &history{s: s, r: r, id: *nextID, cfg: histCfg{spec: kind, alpha: true}, present: map[string]string{}, feat: map[string]bool{}}
	}
	a := mk()
	b := a
	if r.Intn(3) != 0 {
		b = mk()
	}
	n := pick(r, []int{2, 2, 3, 5, 17, 49})
	head := string(randBytes(r, []byte("abc"), 10, 10))
	x := head + strings.Repeat(string(pick(r, []byte("pq"))), 1+r.Intn(12))
	y := head + strings.Repeat(string(pick(r, []byte("rs"))), 1+r.Intn(12))
	sibs := r.Perm(200)
	keyOf := func(stem string, i int) string { return hexLit(append([]byte(stem), byte(1+sibs[i]))) }
	for i := 0; i < n; i++ {
		a.insert(keyOf(x, i))
	}
	// visit the node: a further sibling, lookups, a prefix query ending inside the path
	a.insert(keyOf(x, n))
	s.exec("get", a.id, keyOf(x, 0))
	s.exec("seq", a.id, "prefix", hexLit([]byte(x[:len(x)-r.Intn(2)])), "0", "1")
	s.exec("dump", a.id)
	for len(a.order) > 0 {
		a.remove(a.order[len(a.order)-1])
	}
	s.exec("size", a.id)
	for i := 0; i < n; i++ {
		b.insert(keyOf(y, i))
	}
	// keys leaving the new path beyond the inline bytes, and one leaving it inside them
	for j := 0; j < 3; j++ {
		k := 10 + r.Intn(len(y)-10)
		b.insert(hexLit(append([]byte(y[:k]), 'z', byte('a'+j))))
	}
	b.insert(hexLit(append([]byte(y[:3+r.Intn(7)]), 'z')))
	s.exec("dump", b.id)
	s.exec("size", b.id)
	s.exec("seq", b.id, "all", "0", "1")
	for _, k := range append([]string{}, b.order...) {
		s.exec("get", b.id, k)
	}
	s.exec("seq", b.id, "prefix", hexLit([]byte(y[:10+r.Intn(len(y)-9)])), "0", "1")
	for len(b.order) > 0 {
		b.remove(b.order[r.Intn(len(b.order))])
	}
	s.exec("dump", b.id)
	s.exec("size", b.id)
	delete(s.trees, a.id)
	delete(s.trees, b.id)
	s.tr.stats["multi-recycle-dances"]++
}

// poolDance: one tree releases a node of a given class whose children sat under HIGH branch bytes; the next tree
// acquires a node of that class – by growing into it or by shrinking into it – for children under LOW bytes.
// Whatever the released object remembers (a field its clear() forgot, bounds, hints, stale lanes) meets content it
// does not fit.
func poolDance(s *session, r *rand.Rand, nextID *int, spec string) {
	mk := func() (*history, func(int) string) {
		*nextID++
		s.newTree(*nextID, spec)
		hc := histCfg{spec: spec}
		f := strings.Fields(spec)
		switch f[0] {
		case "alpha":
			hc.alpha = true
		case "num":
			hc.numTy = f[1]
		case "coll":
			hc.collName = "root"
			if len(f) > 2 {
				hc.collName = f[2]
			}
		}
		h := &history{s: s, r: r, id: *nextID, cfg: hc, present: map[string]string{}, feat: map[string]bool{}}
		return h, fanKeys(spec, r)
	}
	a, ka := mk()
	b, kb := mk()
	if ka == nil || kb == nil {
		return
	}
	cls := pick(r, []int{16, 48, 48, 256, 4})
	// children that make a node of that class; that make the class above; count at which a node enters the class
	// growing; count at which the class above shrinks into it
	at := map[int]int{4: 3, 16: 10, 48: 30, 256: 60}[cls]
	above := map[int]int{4: 6, 16: 20, 48: 52, 256: 60}[cls]
	enter := map[int]int{4: 2, 16: 5, 48: 17, 256: 49}[cls]
	shrinkAt := map[int]int{4: 3, 16: 12, 48: 37}[cls]
	high := func(i int) int { return 0xFF - i }
	low := func(i int) int { return 1 + i }
	// B is prepared so that its very next step acquires a node of class cls – growing into it, or shrinking into it
	// (B's own way up passed through the class: whatever it used there has gone back to the pool before A starts)
	growing := r.Intn(2) == 0 || cls == 256
	if growing {
		for i := 0; i < enter-1; i++ {
			b.insert(kb(low(i)))
		}
	} else {
		for i := 0; i < above; i++ {
			b.insert(kb(low(i)))
		}
		for len(b.order) > shrinkAt+1 {
			b.remove(b.order[r.Intn(len(b.order))])
		}
	}
	s.exec("dump", b.id)
	// A: a node of class cls under high bytes, then released (grown out of it, or shrunk out of it)
	for i := 0; i < at; i++ {
		a.insert(ka(high(i)))
	}
	s.exec("seq", a.id, "all", "0", "1")
	if r.Intn(2) == 0 && cls != 256 {
		for i := at; i < above; i++ {
			a.insert(ka(high(i)))
		}
	} else {
		for len(a.order) > 2 {
			a.remove(a.order[len(a.order)-1])
		}
	}
	s.exec("dump", a.id)
	// B's step
	if growing {
		b.insert(kb(low(enter)))
	} else {
		b.remove(b.order[r.Intn(len(b.order))])
	}
	s.exec("dump", b.id)
	s.exec("size", b.id)
	s.exec("seq", b.id, "all", "0", "1")
	s.exec("seq", b.id, "back", "0", "1")
	s.exec("min", b.id)
	s.exec("max", b.id)
	for _, k := range append([]string{}, b.order...) {
		s.exec("get", b.id, k)
	}
	if b.cfg.alpha || b.cfg.numTy != "" {
		s.exec("seq", b.id, "range", kb(low(0)), kb(low(above)), "0", "1")
	}
	// and B goes on living
	for i := 0; i < 4; i++ {
		b.insert(kb(0x60 + r.Intn(0x40)))
	}
	b.remove(b.order[0])
	s.exec("dump", b.id)
	s.exec("seq", b.id, "all", "0", "1")
	s.exec("dump", a.id)
	s.exec("seq", a.id, "all", "0", "1")
	delete(s.trees, a.id)
	delete(s.trees, b.id)
	s.tr.stats[fmt.Sprintf("pool-dances-%d", cls)]++
}

// runMultiMode interleaves operations over several live trees of mixed kinds (C12).
func runMultiMode(cfg treeRunCfg, tr *transcript) {
	r := rand.New(rand.NewSource(cfg.seed))
	s := newSession(tr)
	nextID := 0
	groups := cfg.hists
	for g := 0; g < groups; g++ {
		recycleDance(s, r, &nextID)
		poolDance(s, r, &nextID, pick(r, []string{"alpha string", "alpha bytes", "num u16", "num i32", "num u64"}))
		n := 2 + r.Intn(cfg.multi-1)
		var hs []*history
		for i := 0; i < n; i++ {
			fam := pick(r, cfg.families)
			hc := pick(r, histCfgsFor(fam, r))
			if fam == "coll" && r.Intn(3) != 0 {
				for _, c := range histCfgsFor(fam, r) {
					if c.collName == pick(r, []string{"numeric", "sv", "de"}) {
						hc = c
						break
					}
				}
			}
			hc.ops = cfg.ops
			hc.profile = "mixed"
			hc.dumpAll = cfg.dumpAll
			hc.maxKeys = cfg.maxKeys
			nextID++
			s.newTree(nextID, hc.spec)
			h := &history{s: s, r: r, id: nextID, cfg: hc, present: map[string]string{}, feat: map[string]bool{}}
			// wide fan-out universes so that nodes of every class are released and re-used
			h.uni = []universe{pick(r, hc.unis)}
			if fam == "coll" && r.Intn(2) == 0 {
				// strings whose place depends on the tree's own collator (a tree that forgets its options shows here)
				h.uni = []universe{hc.unis[0]}
			}
			hs = append(hs, h)
			tr.comment(fmt.Sprintf("multi group=%d tree=%d spec=%q universe=%s", g, nextID, hc.spec, h.uni[0].name))
			// every tree has been emptied by deletions once before its history starts: from then on it must behave
			// like a new one (with the options it was built with)
			h.singletonDance()
			for len(h.order) > 0 {
				h.remove(h.order[0])
			}
		}
		// interleave: each step picks a tree and performs a short burst in one direction
		for step := 0; step < cfg.ops; step++ {
			h := pick(r, hs)
			if s.dead[h.id] {
				continue
			}
			burst := 1 + r.Intn(20)
			grow := r.Intn(2) == 0
			for b := 0; b < burst; b++ {
				if grow && len(h.order) < h.cfg.maxKeys {
					h.insert(h.genKey())
				} else if len(h.order) > 0 {
					h.remove(pick(r, h.order))
				} else {
					h.insert(h.genKey())
				}
			}
			s.exec("dump", h.id)
			if r.Intn(3) == 0 {
				h.query()
			}
			if r.Intn(6) == 0 && len(hs) > 1 {
				// two passes alive at once: a complete pass over one tree from inside the loop body of a pass
				// over another (each must yield what it yields alone)
				o, in := pick(r, hs), pick(r, hs)
				if !s.dead[o.id] && !s.dead[in.id] {
					osel := pick(r, [][]string{{"all"}, {"back"}, {"botk", "5"}, {"topk", "4"}})
					isel := pick(r, [][]string{{"all"}, {"back"}, {"botk", "3"}})
					var inner [][]kv
					outer := []kv{}
					out := safely(func() string {
						outer = s.trees[o.id].SeqHook(osel, func(i int) {
							if i < 3 {
								res, _ := s.trees[in.id].Seq(isel, 0, 1)
								inner = append(inner, res[0])
							}
						})
						return renderKVs(outer)
					})
					tr.emit(fmt.Sprintf("seq %d %s 0 1", o.id, strings.Join(osel, " ")), out)
					for _, res := range inner {
						tr.emit(fmt.Sprintf("seq %d %s 0 1", in.id, strings.Join(isel, " ")), renderKVs(res))
					}
					tr.stats["multi-nested-passes"]++
				}
			}
			if r.Intn(12) == 0 {
				recycleDance(s, r, &nextID)
			}
			if r.Intn(12) == 0 {
				poolDance(s, r, &nextID, pick(r, []string{"alpha string", "alpha bytes", "num u16", "num i32", "num u64"}))
			}
			if r.Intn(4) == 0 {
				// a tree misused with keys outside its contract (byte strings with embedded 0x00, one a prefix of
				// others) lives next to the others; whatever happens to IT, the others must not notice
				rogueStep(r)
				tr.stats["multi-rogue-steps"]++
			}
			if r.Intn(25) == 0 {
				// empty one tree completely, then keep using it
				for len(h.order) > 0 {
					h.remove(h.order[len(h.order)-1])
				}
				s.exec("dump", h.id)
				s.exec("size", h.id)
				tr.stats["multi-emptied"]++
			}
		}
		for _, h := range hs {
			s.exec("dump", h.id)
			s.exec("seq", h.id, "all", "0", "1")
			s.exec("size", h.id)
			delete(s.trees, h.id)
		}
		tr.stats["multi-groups"]++
	}
}

func writeStats(tr *transcript, path string) {
	keys := make([]string, 0, len(tr.stats))
	for k := range tr.stats {
		keys = append(keys, k)
	}
	sort.Strings(keys)
	f, err := os.Create(path)
	if err != nil {
		panic(err)
	}
	defer f.Close()
	fmt.Fprintln(f, "{")
	for i, k := range keys {
		comma := ","
		if i == len(keys)-1 {
			comma = ""
		}
		fmt.Fprintf(f, "  %q: %d%s\n", k, tr.stats[k], comma)
	}
	fmt.Fprintln(f, "}")
}
