# Extra property definitions for ./check (executed with check's globals).
import tempfile


def c19_generator_leg(pid, tier, seed, i, leg):
    """byte-for-byte: run the real generator + gofmt in a scratch copy of /repo; compare with the checked-in
    trees.go; compare the raw generator output with the Lean template model's output"""
    diffs = []
    evaluations = 0
    scratch = tempfile.mkdtemp(prefix="verif-c19-")
    transcript = os.path.join(WORK, f"{pid}-{tier}-{i}.txt")
    lines = []
    try:
        dst = os.path.join(scratch, "repo")
        shutil.copytree(REPO, dst, ignore=shutil.ignore_patterns(".git"))
        want = open(os.path.join(REPO, "trees.go"), "rb").read()

        def gen(label, prepare):
            nonlocal evaluations
            prepare()
            rc, out = sh(["go", "run", "cmd/go-art/main.go"], cwd=dst, timeout=600)
            if rc != 0:
                diffs.append(dict(line=0, cls="SPEC", text=f"{label}: generator failed: {out[-400:]}"))
                return None
            raw = open(os.path.join(dst, "trees.go"), "rb").read()
            rc, out = sh(["gofmt", "-w", "trees.go"], cwd=dst)
            if rc != 0:
                diffs.append(dict(line=0, cls="SPEC", text=f"{label}: gofmt failed: {out[-400:]}"))
                return raw
            got = open(os.path.join(dst, "trees.go"), "rb").read()
            evaluations += 1
            ok = got == want
            lines.append(f"assert 0 generated-{label}-equals-checked-in-trees.go => {'ok' if ok else 'differs'}")
            if not ok:
                # first differing line
                g, w = got.split(b"\n"), want.split(b"\n")
                k = next((j for j in range(min(len(g), len(w))) if g[j] != w[j]), min(len(g), len(w)))
                diffs.append(dict(line=len(lines), cls="SPEC",
                                  text=f"{label}: trees.go is not the formatted generator output; first difference at line {k + 1}: "
                                       f"generated={g[k][:160] if k < len(g) else b'<eof>'!r} checked-in={w[k][:160] if k < len(w) else b'<eof>'!r}"))
            return raw

        raw1 = gen("into-empty-dir", lambda: os.remove(os.path.join(dst, "trees.go")))
        # the generator opens trees.go without truncation: regenerate over the existing file as `go generate` would
        gen("over-existing-file", lambda: shutil.copy(os.path.join(REPO, "trees.go"), os.path.join(dst, "trees.go")))
        # regenerating must put the generated text back whatever state the file is in and whatever its age: a hand
        # edit (the file is then the newest in the tree), a stale longer file, a file older than everything else
        def edited():
            with open(os.path.join(dst, "trees.go"), "ab") as f:
                f.write(b"\n// hand edit\nfunc handEdit() {}\n")
            now = time.time()
            os.utime(os.path.join(dst, "trees.go"), (now + 5, now + 5))
        gen("over-a-hand-edited-newer-file", lambda: (shutil.copy(os.path.join(REPO, "trees.go"), os.path.join(dst, "trees.go")), edited()))

        def aged():
            shutil.copy(os.path.join(REPO, "trees.go"), os.path.join(dst, "trees.go"))
            with open(os.path.join(dst, "trees.go"), "r+b") as f:
                b = f.read().replace(b"'\\x00'", b"'\\x01'", 1)
                f.seek(0)
                f.write(b)
            os.utime(os.path.join(dst, "trees.go"), (1, 1))
        gen("over-an-altered-old-file", aged)
        # tie the Lean template model to text/template on this template
        rc, out = sh(["lake", "build", "tmplrender"], cwd=LEAN)
        if rc == 0 and raw1 is not None:
            p = subprocess.run([os.path.join(LEAN, ".lake", "build", "bin", "tmplrender")], stdout=subprocess.PIPE)
            evaluations += 1
            ok = p.stdout == raw1
            lines.append(f"assert 0 lean-template-model-output-equals-text/template-output => {'ok' if ok else 'differs'}")
            if not ok:
                diffs.append(dict(line=len(lines), cls="MODEL", text="Tmpl.render output differs from the real generator's raw output"))
        elif rc != 0:
            diffs.append(dict(line=0, cls="MODEL", text="tmplrender does not build: " + out[-400:]))
    finally:
        shutil.rmtree(scratch, ignore_errors=True)
    with open(transcript, "w") as f:
        f.write("\n".join(lines) + "\n")
    return dict(leg=leg, transcript=transcript, diffs=diffs, summary={"ops": len(lines)}, stats={"generator-runs": 4},
                cmd="scratch copy: go run cmd/go-art/main.go && gofmt -w trees.go && cmp", nontrivial=4, evaluations=0)


def c19():
    leg = dict(kind="gen", custom=c19_generator_leg)
    return dict(title="checked-in generated trees are what the generator produces",
                legs={"quick": [leg], "thorough": [leg]}, mine=lambda c: True, structural=False)



# the two instructions node16_arm64.s writes as raw WORDs, as Model/Arm64.lean reads them
ARM64_WORDS = {"6e213400": "VCMHI V1.B16, V0.B16, V0.B16", "0f0c8400": "VSHRN $4, V0.H8, V0.B8"}


def c10_arm64_decode_leg(pid, tier, seed, i, leg):
    """node16_arm64.s cannot be run here, but it can be assembled (cross-assembler) and disassembled by the Go
    toolchain: the raw WORDs must decode to the instructions Model/Arm64.lean takes them for, and every mnemonic of the
    disassembly must be one the model gives a meaning to.  This validates the decoding only, not the semantics."""
    diffs, lines = [], []
    transcript = os.path.join(WORK, f"{pid}-{tier}-{i}.txt")
    scratch = tempfile.mkdtemp(prefix="verif-c10-arm64-")
    try:
        rc, goroot = sh(["go", "env", "GOROOT"], cwd=REPO)
        goroot = goroot.strip().splitlines()[-1] if rc == 0 and goroot.strip() else ""
        obj = os.path.join(scratch, "n16.o")
        env = dict(ENV, GOARCH="arm64", GOOS="linux")
        rc, out = sh(["go", "tool", "asm", "-I", os.path.join(goroot, "pkg", "include"), "-p", "art", "-o", obj, "node16_arm64.s"], cwd=REPO, env=env)
        if rc != 0:
            diffs.append(dict(line=0, cls="MODEL", text="node16_arm64.s does not assemble: " + out[-400:]))
        else:
            rc, dis = sh(["go", "tool", "objdump", obj], cwd=REPO, env=env)
            known = {"MOVD", "MOVB", "MOVBU", "VLD1", "VDUP", "VCMEQ", "VCMHI", "VSHRN", "FMOVD", "CBNZ", "CBZ", "AND", "RBIT", "CLZ", "ASR", "LSR", "RET", "?"}
            for l in dis.splitlines():
                w = l.split()
                if len(w) < 4 or not re.fullmatch(r"[0-9a-f]{8}", w[2]):
                    continue
                enc, mn, ops = w[2], w[3], " ".join(w[4:])
                if enc in ARM64_WORDS:
                    ok = f"{mn} {ops}".strip() == ARM64_WORDS[enc]
                    lines.append(f"assert 0 arm64-word-{enc}-decodes-to-{ARM64_WORDS[enc].split()[0]} => {'ok' if ok else mn + ' ' + ops}")
                    if not ok:
                        diffs.append(dict(line=len(lines), cls="MODEL", text=f"WORD {enc} disassembles to `{mn} {ops}`, Model/Arm64.lean reads it as `{ARM64_WORDS[enc]}`"))
                elif mn not in known:
                    lines.append(f"assert 0 arm64-mnemonic-{mn}-has-a-meaning-in-the-model => no")
                    diffs.append(dict(line=len(lines), cls="MODEL", text=f"node16_arm64.s uses {mn}, which Model/Arm64.lean gives no meaning"))
            if not lines:
                diffs.append(dict(line=0, cls="MODEL", text="no raw WORD found in the disassembly of node16_arm64.s: " + dis[-300:]))
    finally:
        shutil.rmtree(scratch, ignore_errors=True)
    with open(transcript, "w") as f:
        f.write("\n".join(lines) + "\n")
    return dict(leg=leg, transcript=transcript, diffs=diffs, summary={"ops": len(lines)}, stats={"arm64-words-decoded": len(lines)},
                cmd="GOARCH=arm64 go tool asm node16_arm64.s && go tool objdump (decoding of the raw WORDs only)", evaluations=0)


def c10():
    p = dict(PROPS["C10"])
    leg = dict(kind="arm64-decode", custom=c10_arm64_decode_leg)
    p["legs"] = {t: ls + [leg] for t, ls in PROPS["C10"]["legs"].items()}
    return p


EXTRA = {"C19": c19, "C10": c10}
