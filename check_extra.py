# Extra property definitions for ./check (executed with check's globals).
import tempfile


def c19_generator_leg(pid, tier, seed, i, leg):
    """byte-for-byte: run the real generator + gofmt in a scratch copy of /repo; compare with the checked-in
    trees.go; compare the raw generator output with the Lean template model's output"""
    diffs = []
    evaluations = 0
    scratch = tempfile.mkdtemp(prefix="verif-c19-")
    transcript = os.path.join(WORK, f"{pid}-{tier}-{i}.txt")
    lines = []
    try:
        dst = os.path.join(scratch, "repo")
        shutil.copytree(REPO, dst, ignore=shutil.ignore_patterns(".git"))
        want = open(os.path.join(REPO, "trees.go"), "rb").read()

        def gen(label, prepare):
            nonlocal evaluations
            prepare()
            rc, out = sh(["go", "run", "cmd/go-art/main.go"], cwd=dst, timeout=600)
            if rc != 0:
                diffs.append(dict(line=0, cls="SPEC", text=f"{label}: generator failed: {out[-400:]}"))
                return None
            raw = open(os.path.join(dst, "trees.go"), "rb").read()
            rc, out = sh(["gofmt", "-w", "trees.go"], cwd=dst)
            if rc != 0:
                diffs.append(dict(line=0, cls="SPEC", text=f"{label}: gofmt failed: {out[-400:]}"))
                return raw
            got = open(os.path.join(dst, "trees.go"), "rb").read()
            evaluations += 1
            ok = got == want
            lines.append(f"assert 0 generated-{label}-equals-checked-in-trees.go => {'ok' if ok else 'differs'}")
            if not ok:
                # first differing line
                g, w = got.split(b"\n"), want.split(b"\n")
                k = next((j for j in range(min(len(g), len(w))) if g[j] != w[j]), min(len(g), len(w)))
                diffs.append(dict(line=len(lines), cls="SPEC",
                                  text=f"{label}: trees.go is not the formatted generator output; first difference at line {k + 1}: "
                                       f"generated={g[k][:160] if k < len(g) else b'<eof>'!r} checked-in={w[k][:160] if k < len(w) else b'<eof>'!r}"))
            return raw

        raw1 = gen("into-empty-dir", lambda: os.remove(os.path.join(dst, "trees.go")))
        # the generator opens trees.go without truncation: regenerate over the existing file as `go generate` would
        gen("over-existing-file", lambda: shutil.copy(os.path.join(REPO, "trees.go"), os.path.join(dst, "trees.go")))
        # regenerating must put the generated text back whatever state the file is in and whatever its age: a hand
        # edit (the file is then the newest in the tree), a stale longer file, a file older than everything else
        def edited():
            with open(os.path.join(dst, "trees.go"), "ab") as f:
                f.write(b"\n// hand edit\nfunc handEdit() {}\n")
            now = time.time()
            os.utime(os.path.join(dst, "trees.go"), (now + 5, now + 5))
        gen("over-a-hand-edited-newer-file", lambda: (shutil.copy(os.path.join(REPO, "trees.go"), os.path.join(dst, "trees.go")), edited()))

        def aged():
            shutil.copy(os.path.join(REPO, "trees.go"), os.path.join(dst, "trees.go"))
            with open(os.path.join(dst, "trees.go"), "r+b") as f:
                b = f.read().replace(b"'\\x00'", b"'\\x01'", 1)
                f.seek(0)
                f.write(b)
            os.utime(os.path.join(dst, "trees.go"), (1, 1))
        gen("over-an-altered-old-file", aged)
        # tie the Lean template model to text/template on this template
        rc, out = sh(["lake", "build", "tmplrender"], cwd=LEAN)
        if rc == 0 and raw1 is not None:
            p = subprocess.run([os.path.join(LEAN, ".lake", "build", "bin", "tmplrender")], stdout=subprocess.PIPE)
            evaluations += 1
            ok = p.stdout == raw1
            lines.append(f"assert 0 lean-template-model-output-equals-text/template-output => {'ok' if ok else 'differs'}")
            if not ok:
                diffs.append(dict(line=len(lines), cls="MODEL", text="Tmpl.render output differs from the real generator's raw output"))
        elif rc != 0:
            diffs.append(dict(line=0, cls="MODEL", text="tmplrender does not build: " + out[-400:]))
    finally:
        shutil.rmtree(scratch, ignore_errors=True)
    with open(transcript, "w") as f:
        f.write("\n".join(lines) + "\n")
    return dict(leg=leg, transcript=transcript, diffs=diffs, summary={"ops": len(lines)}, stats={"generator-runs": 4},
                cmd="scratch copy: go run cmd/go-art/main.go && gofmt -w trees.go && cmp", nontrivial=4, evaluations=0)


def c19():
    leg = dict(kind="gen", custom=c19_generator_leg)
    return dict(title="checked-in generated trees are what the generator produces",
                legs={"quick": [leg], "thorough": [leg]}, mine=lambda c: True, structural=False)


EXTRA = {"C19": c19}
